#!/usr/bin/env python3
"""dev helper: run seeded changes against the check of their own property WITHOUT touching /repo.
Each change is applied (git apply) to its own scratch copy of /repo/asynq, which is removed afterwards;
the check runs with ASYNQ_VERIF_REPO / ASYNQ_VERIF_OUT pointing into the scratch directory, so neither
/repo nor /verif/evidence is disturbed.  Results: seeded_results/<round>/<id>.txt
usage: tools/seeded_par.py <seeded dir> <jobs> <id>..."""
import os, re, shutil, subprocess, sys, tempfile
from concurrent.futures import ThreadPoolExecutor

sdir, jobs, ids = sys.argv[1], int(sys.argv[2]), sys.argv[3:]
rnd = os.path.basename(sdir.rstrip("/"))
outdir = os.path.join("/verif/seeded_results", rnd)
os.makedirs(outdir, exist_ok=True)


def one(pid):
    d = tempfile.mkdtemp(prefix="asynq_seed_")
    try:
        os.makedirs(d + "/repo"); os.makedirs(d + "/out")
        shutil.copytree("/repo/asynq", d + "/repo/asynq")
        a = subprocess.run(["git", "apply", "--unsafe-paths", "--directory=" + d + "/repo", os.path.join(sdir, pid, "patch.diff")],
                           cwd=d + "/repo", capture_output=True, text=True)
        if a.returncode != 0:
            a = subprocess.run(["patch", "-p1", "-s", "-i", os.path.join(sdir, pid, "patch.diff")], cwd=d + "/repo", capture_output=True, text=True)
            if a.returncode != 0:
                return pid, "apply failed: " + a.stderr[-300:]
        env = dict(os.environ, ASYNQ_VERIF_REPO=d + "/repo", ASYNQ_VERIF_OUT=d + "/out")
        p = subprocess.run(["/verif/check", pid], env=env, capture_output=True, text=True)
        lines = [l.replace(d + "/out", "<out>")[:220] for l in p.stdout.splitlines()
                 if re.search(r"^C[0-9]+ \[|VIOLATION|UNDECIDED|KNOWN|CHECKER", l)][:8]
        txt = "\n".join(lines) + "\nrc=%d\n" % p.returncode
        open(os.path.join(outdir, pid + ".txt"), "w").write(txt)
        return pid, "rc=%d" % p.returncode
    finally:
        shutil.rmtree(d, ignore_errors=True)


with ThreadPoolExecutor(jobs) as ex:
    for pid, r in ex.map(one, ids):
        print(rnd, pid, r, flush=True)
