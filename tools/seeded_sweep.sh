#!/bin/sh
# run seeded changes (default dir /verif/seeded, override with SEEDED_DIR) against the check of their own property;
# applies each patch to /repo, runs ./check <id>, undoes it; the clean-tree evidence files are put back at the end
cd /verif
dir=${SEEDED_DIR:-/verif/seeded}
rm -rf /tmp/evid_backup && cp -r /verif/evidence /tmp/evid_backup
for id in "$@"; do
  echo "=== seeded $id ($dir)"
  git -C /repo apply $dir/$id/patch.diff || { echo "apply failed"; continue; }
  ./check $id > /tmp/sweep_$id.log 2>/dev/null; rc=$?
  git -C /repo checkout -- .
  grep -E "^C[0-9]+ \[|VIOLATION|UNDECIDED|KNOWN|CHECKER" /tmp/sweep_$id.log | cut -c1-200 | head -6
  echo "   rc=$rc"
done
rm -rf /verif/evidence && mv /tmp/evid_backup /verif/evidence
