"""Bounded stand-in for async_task.unwrap / extract_futures (C01, C02): every yielded structure built from
the leaf kinds {None, ConstFuture, computed Future, failed future (2 distinct), non-future object} nested in
tuple / list / dict to depth <= 2 (3 in the thorough tier) and width <= 3, compared with a reference written
from the property statement: same shape with each future replaced by its value; first failing leaf in structure
order wins; a non-future, non-None leaf is a TypeError; extract_futures lists exactly the futures (tuple/list
members right-to-left, dict values left-to-right)."""
import itertools
import json
import os
import sys

from asynq import async_task, futures

tier = os.environ.get("VERIF_TIER", "quick")
E1, E2 = ValueError("e1"), KeyError("e2")


def leaves():
    f = futures.Future(lambda: "lazy")
    f.value()
    return [("none", None), ("const", futures.ConstFuture(7)), ("fut", f), ("err1", futures.ErrorFuture(E1)),
            ("err2", futures.ErrorFuture(E2)), ("obj", object()), ("zero", 0), ("emptystr", "")]


def structures(depth, width):
    base = leaves()
    if depth == 0:
        for l in base:
            yield l
        return
    subs = list(structures(depth - 1, width))
    for l in base:
        yield l
    # keep the product small: sample children from a reduced pool at deeper levels
    pool = subs if depth == 1 else subs[::max(1, len(subs) // 14)]
    for w in range(0, width + 1):
        for combo in itertools.product(pool, repeat=w):
            names = [c[0] for c in combo]
            vals = [c[1] for c in combo]
            yield ("t(" + ",".join(names) + ")", tuple(vals))
            yield ("l[" + ",".join(names) + "]", list(vals))
            yield ("d{" + ",".join(names) + "}", {i: v for i, v in enumerate(vals)})


class Bad(Exception):
    pass


def ref_unwrap(v):
    """reference from the statement: returns value or raises the first failing leaf / TypeError"""
    if v is None:
        return None
    if isinstance(v, futures.FutureBase):
        if v.error() is not None:
            raise v.error()
        return v.value()
    if type(v) is tuple:
        return tuple(ref_unwrap(x) for x in v)
    if type(v) is list:
        return [ref_unwrap(x) for x in v]
    if type(v) is dict:
        return {k: ref_unwrap(x) for k, x in v.items()}
    raise TypeError("not a future")


def ref_extract(v, out):
    if v is None:
        return out
    if isinstance(v, futures.FutureBase):
        out.append(v)
    elif type(v) in (tuple, list):
        for x in reversed(v):
            ref_extract(x, out)
    elif type(v) is dict:
        for x in v.values():
            ref_extract(x, out)
    return out


def all_futures(v, acc):
    if isinstance(v, futures.FutureBase):
        acc.append(v)
    elif type(v) in (tuple, list):
        for x in v:
            all_futures(x, acc)
    elif type(v) is dict:
        for x in v.values():
            all_futures(x, acc)
    return acc


def same(a, b):
    if type(a) is not type(b):
        return False
    if type(a) in (tuple, list):
        return len(a) == len(b) and all(same(x, y) for x, y in zip(a, b))
    if type(a) is dict:
        return list(a.keys()) == list(b.keys()) and all(same(a[k], b[k]) for k in a)
    return a is b or a == b


def main():
    depth = 3 if tier == "thorough" else 2
    cases, viol, distinct = 0, [], set()
    for name, v in structures(depth, 3):
        cases += 1
        distinct.add(name)
        try:
            want = ("val", ref_unwrap(v))
        except BaseException as e:
            want = ("exc", e)
        try:
            got = ("val", async_task.unwrap(v))
        except BaseException as e:
            got = ("exc", e)
        ok = want[0] == got[0] and (same(want[1], got[1]) if want[0] == "val" else
                                    (want[1] is got[1] or (isinstance(want[1], TypeError) and isinstance(got[1], TypeError))))
        if not ok and len(viol) < 3:
            viol.append({"name": "bounded:structures:unwrap", "what": "unwrap(%s) differs from the reference" % name,
                         "want": repr(want)[:200], "got": repr(got)[:200]})
        res = async_task.extract_futures(v, [])
        exp = ref_extract(v, [])
        if not (len(res) == len(exp) and all(a is b for a, b in zip(res, exp))) and len(viol) < 3:
            viol.append({"name": "bounded:structures:extract_futures", "what": "extract_futures(%s) differs from the reference order/content" % name,
                         "want": len(exp), "got": len(res)})
        allf = all_futures(v, [])
        if sorted(map(id, allf)) != sorted(map(id, res)) and len(viol) < 3:
            viol.append({"name": "bounded:structures:leaves", "what": "extract_futures(%s) does not list exactly the futures of the structure" % name})
    print(json.dumps({"name": "structures", "bound": "depth<=%d width<=3, 8 leaf kinds (incl. falsy non-futures)" % depth, "cases": cases,
                      "distinct": len(distinct), "violations": viol,
                      "sample": sorted(distinct)[len(distinct) // 2: len(distinct) // 2 + 3]}))


main()
