"""Symbolic execution of one real function body against its contract.

Forward, path-splitting.  Loops are cut at invariants, calls are replaced by
the callee's contract.  Produces named obligations."""
import ast
import z3
from . import smt
from .smt import V, NONE, TRUE, FALSE, NONE_MARK
from .state import State, Heap, fresh_v, fresh_int, fresh_name, field_sort, AVI, AVB
from .spec import SpecEnv, SpecError, as_v, as_bool, as_int
from .engine import Obligation
from .exprs import ExprMixin
from .calls import CallMixin


class Undecided(Exception):
    """The function uses a construct outside the supported subset, or a call
    cannot be resolved to a contract."""


NORMAL = ("normal",)
BREAK = ("break",)
CONTINUE = ("continue",)

OPTION_BASES = {"_debug_options", "options"}
MAX_PATHS = 4000


def loops_in_order(fn):
    """Loops and comprehensions of a function body in source order (not
    descending into nested function definitions)."""
    out = []

    def visit(n):
        for c in ast.iter_child_nodes(n):
            if isinstance(c, (ast.FunctionDef, ast.AsyncFunctionDef, ast.Lambda, ast.ClassDef)):
                continue
            if isinstance(c, (ast.For, ast.While, ast.ListComp, ast.DictComp, ast.SetComp, ast.GeneratorExp)):
                out.append(c)
            visit(c)
    visit(fn)
    return out


def assigned_names(nodes):
    names = set()

    def tgt(t):
        if isinstance(t, ast.Name):
            names.add(t.id)
        elif isinstance(t, (ast.Tuple, ast.List)):
            for e in t.elts:
                tgt(e)
        elif isinstance(t, ast.Starred):
            tgt(t.value)

    def visit(n):
        if isinstance(n, (ast.FunctionDef, ast.AsyncFunctionDef)):
            names.add(n.name)
            return
        if isinstance(n, (ast.Lambda, ast.ClassDef)):
            return
        if isinstance(n, ast.Assign):
            for t in n.targets:
                tgt(t)
        elif isinstance(n, (ast.AugAssign, ast.AnnAssign)):
            tgt(n.target)
        elif isinstance(n, (ast.For, ast.comprehension)):
            tgt(n.target)
        elif isinstance(n, ast.ExceptHandler) and n.name:
            names.add(n.name)
        elif isinstance(n, ast.With):
            for it in n.items:
                if it.optional_vars is not None:
                    tgt(it.optional_vars)
        elif isinstance(n, ast.NamedExpr):
            tgt(n.target)
        for c in ast.iter_child_nodes(n):
            visit(c)
    for n in nodes:
        visit(n)
    return names


class FuncExec(ExprMixin, CallMixin):
    def __init__(self, eng, qual, contract, module, fn, cls):
        self.eng = eng
        self.reg = eng.reg
        self.qual = qual
        self.contract = contract
        self.module = module
        self.fn = fn
        self.cls = cls
        self.obligations = []
        self.loops = loops_in_order(fn)
        self.entry_heap = None
        self.entry_names = {}
        self.dry = 0
        self.paths = 0
        self.exit_count = {"return": 0, "raise": 0}
        self.used_assumptions = []
        self.closure = {}
        self.synth = {}
        self.synth_keep = []
        self.array_facts = {}     # array const name -> [facts]
        self.loop_frames = {}
        self.loop_excl = {}
        self.probe_callees = set()
        self.extra_axioms = {}    # key -> definitional axiom of a spec function used in this function

    # ------------------------------------------------------------------
    def loop_ordinal(self, node):
        if id(node) in self.synth:
            return self.synth[id(node)]
        for i, n in enumerate(self.loops):
            if n is node:
                return i + 1
        raise Undecided("loop not indexed")

    def oblige_all(self, st, kind, label, parts, lineno=None):
        """One obligation whose goal is the conjunction of labelled parts."""
        if self.dry or not parts:
            return
        if len(parts) == 1:
            return self.oblige(st, kind, "%s.%s" % (label, parts[0][0]), parts[0][1], lineno)
        self.oblige(st, kind, label, z3.And(*[f for _l, f in parts]), lineno, parts=parts)

    def oblige(self, st, kind, label, goal, lineno=None, parts=None):
        if self.dry:
            return
        if z3.is_true(goal):
            goal = z3.BoolVal(True)
        self.close_heap(st)
        if parts is None and z3.is_and(goal) and goal.num_args() > 1:
            parts = [(str(i + 1), goal.arg(i)) for i in range(goal.num_args())]
        ob = Obligation(self.qual, kind, label, st.pc, goal, st.trace, lineno)
        ob.parts = parts
        self.attach_facts(ob)
        self.obligations.append(ob)
        st.assume(goal)

    def drain_arrays(self):
        from . import state as _state
        while _state.NEW_ARRAYS:
            f, a = _state.NEW_ARRAYS.pop()
            key = a.decl().name()
            if key in self.array_facts:
                continue
            facts = []
            for h in self.reg.array_hooks:
                facts.extend(h(self.eng, f, a))
            self.array_facts[key] = facts

    def attach_facts(self, ob):
        from .engine import consts_of
        self.drain_arrays()
        names = consts_of(list(ob.pc) + [ob.goal])
        facts = []
        todo = [n for n in names if n in self.array_facts]
        seen = set()
        while todo:
            n = todo.pop()
            if n in seen:
                continue
            seen.add(n)
            fs = self.array_facts.get(n, [])
            facts.extend(fs)
            self.drain_arrays()
            for m in consts_of(fs):
                if m in self.array_facts and m not in seen:
                    todo.append(m)
        ob.facts = facts + list(self.extra_axioms.values())

    def spec_env(self, st, result=None, exc=None, pre=None):
        names = dict(st.locals)
        names.update(self.entry_names)   # parameters denote entry values in specs ...
        # ... but current locals that are not parameters are visible (loop invariants)
        for k, v in st.locals.items():
            if k not in self.entry_names:
                names[k] = v
            else:
                names["cur_" + k] = v
        env = SpecEnv(self.eng, names, st.heap, self.entry_heap, pre=pre, result=result, exc=exc,
                      ghost=st.ghost, fx=self)
        env.params = set(self.entry_names)
        return env

    # ------------------------------------------------------------------
    def run(self):
        c = self.contract
        st = State()
        a = self.fn.args
        params = [x.arg for x in a.posonlyargs + a.args]
        for p in params:
            st.locals[p] = z3.Const("p!" + p, V)
        # defaults: parameters with defaults are just symbolic (any caller value)
        if a.vararg:
            st.locals[a.vararg.arg] = z3.Const("p!" + a.vararg.arg, V)
            st.ltypes[a.vararg.arg] = "tuple"
            st.assume(smt.typeof(st.locals[a.vararg.arg]) == self.eng.ct.cls("tuple"))
        for x in a.kwonlyargs:
            st.locals[x.arg] = z3.Const("p!" + x.arg, V)
        if a.kwarg:
            st.locals[a.kwarg.arg] = z3.Const("p!" + a.kwarg.arg, V)
            st.ltypes[a.kwarg.arg] = "dict"
            st.assume(smt.typeof(st.locals[a.kwarg.arg]) == self.eng.ct.cls("dict"))
        if self.cls and params and params[0] == "self":
            st.ltypes["self"] = self.cls
            st.assume(self.eng.isinstance_f(st.locals["self"], [self.eng.ct.cls(self.cls)]))
        for k, t in c.types.items():
            st.ltypes[k] = t
        # closure variables declared by the contract (free variables of nested functions)
        for k, t in c.ghost_locals.items():
            st.locals[k] = z3.Const("cv!" + k, V)
            if t:
                st.ltypes[k] = t
        self.entry_names = dict(st.locals)
        self.entry_heap = st.heap.copy()
        # every parameter is an allocated value
        for p, v in st.locals.items():
            st.assume(st.heap.sel("$alloc", v))
            t = st.ltypes.get(p)
            if t and self.eng.ct.known(t) and p != "self" and t not in ("tuple", "dict"):
                if t in ("list", "set", "int", "bool", "str"):
                    st.assume(smt.typeof(v) == self.eng.ct.cls(t))
                else:
                    st.assume(z3.Or(v == NONE, self.eng.isinstance_f(v, [self.eng.ct.cls(t)]))
                              if c.labels.get("nullable:" + p) else self.eng.isinstance_f(v, [self.eng.ct.cls(t)]))
        for f in self.eng.wf(st.heap):
            st.assume(f)
        if c.inv_entry:
            for f in self.eng.inv(st.heap):
                st.assume(f)
        env = self.spec_env(st)
        for r in c.requires:
            st.assume(env.formula(r))
        for r in c.assumes:
            st.assume(env.formula(r))
        if c.raw_requires:
            for f in c.raw_requires(env):
                st.assume(f)
        # vacuity guard: the entry hypotheses must be satisfiable
        if c.covers:
            ob = Obligation(self.qual, "cover", "entry", st.pc, z3.BoolVal(True), ["entry"], self.fn.lineno, expect_sat=True)
            self.attach_facts(ob)
            self.obligations.append(ob)
        self.entry_heap = st.heap.copy()
        outs = self.exec_block(self.fn.body, st)
        for st2, out in outs:
            if out is NORMAL:
                out = ("return", NONE)
            self.finish(st2, out)
        return self.obligations

    def finish(self, st, out):
        c = self.contract
        kind = out[0]
        if kind not in ("return", "raise"):
            raise Undecided("break/continue outside loop")
        self.exit_count[kind] += 1
        n = self.exit_count[kind]
        ln = st.ghost.get("$lineno")
        if not self.dry and c.covers:
            # vacuity guard: the hypotheses accumulated along this exit path (callee postconditions, invariants,
            # site assumptions) must not be contradictory; per function at least one normal exit must be live
            cov = Obligation(self.qual, "cover", "%s-path-%d" % (kind, n), st.pc, z3.BoolVal(True), st.trace, ln, expect_sat=True)
            self.attach_facts(cov)
            cov.soft = True
            self.obligations.append(cov)
        if kind == "return":
            env = self.spec_env(st, result=out[1])
            for i, p in enumerate(c.post):
                lab = c.labels.get(("post", i), "post%d" % (i + 1))
                self.oblige(st, "post", lab, env.formula(p), ln)
            if c.raw_post:
                for lab, f in c.raw_post(env):
                    self.oblige(st, "post", lab, f, ln)
        else:
            env = self.spec_env(st, exc=out[1])
            if c.xpost is None:
                self.oblige(st, "xpost", "no-raise", z3.BoolVal(False), ln)
            else:
                for i, p in enumerate(c.xpost):
                    lab = c.labels.get(("xpost", i), "xpost%d" % (i + 1))
                    self.oblige(st, "xpost", lab, env.formula(p), ln)
                if c.raw_xpost:
                    for lab, f in c.raw_xpost(env):
                        self.oblige(st, "xpost", lab, f, ln)
        # frame
        if c.modifies != "*":
            if st.heap.epoch != self.entry_heap.epoch:
                self.oblige(st, "frame", "no-callout", z3.BoolVal(False), ln)
            else:
                allowed = set(c.modifies) | {"$alloc"}
                for f in st.heap.changed_fields(self.entry_heap):
                    if f in allowed or (f.startswith("$has:") and f[5:] in allowed):
                        continue
                    # fresh objects may be written freely: only pre-existing objects are framed
                    x = z3.Const(fresh_name("x!fr"), V)
                    g = smt.forall([x], z3.Implies(self.entry_heap.sel("$alloc", x),
                                                  z3.Select(st.heap.get(f), x) == z3.Select(self.entry_heap.get(f), x)))
                    self.oblige(st, "frame", f, g, ln)
        if c.pure_when:
            cond = SpecEnv(self.eng, dict(self.entry_names), self.entry_heap, self.entry_heap, fx=self).formula(c.pure_when)
            if st.heap.epoch != self.entry_heap.epoch:
                self.oblige(st, "frame", "pure-when", z3.Not(cond), ln)
            else:
                for f in st.heap.changed_fields(self.entry_heap):
                    self.oblige(st, "frame", "pure-when:" + f, z3.Implies(cond, st.heap.get(f) == self.entry_heap.get(f)), ln)
        if c.inv_exit:
            inv = self.eng.inv(st.heap)
            self.oblige_all(st, "inv", "exit", [(str(i + 1), f) for i, f in enumerate(inv)], ln)
        ts = c.two_state
        if ts is None:
            ts = True
        if ts:
            t2 = self.eng.two_state(self.entry_heap, st.heap, c.labels.get("ts_skip", ()))
            self.oblige_all(st, "two-state", "exit", [(str(i + 1), f) for i, f in enumerate(t2)], ln)

    # ------------------------------------------------------------------
    # statements
    def exec_block(self, stmts, st):
        """-> list of (state, outcome)"""
        cur = [st]
        results = []
        for s in stmts:
            nxt = []
            for st1 in cur:
                for st2, out in self.exec_stmt(s, st1):
                    if out is NORMAL:
                        nxt.append(st2)
                    else:
                        results.append((st2, out))
            cur = nxt
            if len(cur) + len(results) > MAX_PATHS:
                raise Undecided("path explosion in %s" % self.qual)
            if not cur:
                break
        results.extend((s_, NORMAL) for s_ in cur)
        return results

    def exec_stmt(self, s, st):
        st.ghost["$lineno"] = getattr(s, "lineno", None)
        m = getattr(self, "st_" + type(s).__name__, None)
        if m is None:
            raise Undecided("unsupported statement %s at line %s" % (type(s).__name__, getattr(s, "lineno", "?")))
        return m(s, st)

    def st_Pass(self, s, st):
        return [(st, NORMAL)]

    def st_Global(self, s, st):
        return [(st, NORMAL)]

    st_Nonlocal = st_Global

    def st_Import(self, s, st):
        return [(st, NORMAL)]

    st_ImportFrom = st_Import

    def st_Break(self, s, st):
        return [(st, BREAK)]

    def st_Continue(self, s, st):
        return [(st, CONTINUE)]

    def st_FunctionDef(self, s, st):
        q = self.qual.split(".", 1)[1] + "." + s.name
        st.locals[s.name] = smt.const("fn:%s.%s" % (self.module.name, q))
        st.ltypes[s.name] = "function"
        return [(st, NORMAL)]

    st_AsyncFunctionDef = st_FunctionDef

    def st_ClassDef(self, s, st):
        # a class defined inside the function: a fresh class value; instances are created by calling it
        q = self.qual.split(".", 1)[1] + "." + s.name
        c = smt.const("localcls:%s.%s" % (self.module.name, q))
        st.locals[s.name] = c
        st.ltypes[s.name] = "type"
        st.ghost["$localcls:" + s.name] = c
        return [(st, NORMAL)]

    def st_Expr(self, s, st):
        if isinstance(s.value, ast.Constant):
            return [(st, NORMAL)]     # docstring
        out = []
        for st2, v, x in self.ev(s.value, st):
            out.append((st2, ("raise", x) if x is not None else NORMAL))
        return out

    def st_Return(self, s, st):
        if s.value is None:
            return [(st, ("return", NONE))]
        out = []
        for st2, v, x in self.ev(s.value, st):
            out.append((st2, ("raise", x) if x is not None else ("return", v)))
        return out

    def st_Assert(self, s, st):
        out = []
        for st2, v, x in self.ev(s.test, st):
            if x is not None:
                out.append((st2, ("raise", x)))
                continue
            c = self.eng.truthy(v, st2.heap)
            ok = st2.copy()
            ok.assume(c)
            out.append((ok, NORMAL))
            bad = st2
            bad.assume(z3.Not(c), "assert fails line %d" % s.lineno)
            e = self.new_exception(bad, "AssertionError")
            out.append((bad, ("raise", e)))
        return out

    def st_Assign(self, s, st):
        out = []
        for st2, v, x in self.ev(s.value, st):
            if x is not None:
                out.append((st2, ("raise", x)))
                continue
            vt = self.static_type(s.value, st2)
            cur = [(st2, None)]
            for t in s.targets:
                nxt = []
                for st3, x3 in cur:
                    if x3 is not None:
                        nxt.append((st3, x3))
                        continue
                    nxt.extend(self.assign(t, v, st3, vt))
                cur = nxt
            for st3, x3 in cur:
                out.append((st3, ("raise", x3) if x3 is not None else NORMAL))
        return out

    def st_AnnAssign(self, s, st):
        if s.value is None:
            return [(st, NORMAL)]
        fake = ast.Assign(targets=[s.target], value=s.value, lineno=s.lineno)
        return self.st_Assign(fake, st)

    def st_AugAssign(self, s, st):
        load = ast_load(s.target)
        binop = ast.BinOp(left=load, op=s.op, right=s.value)
        ast.copy_location(binop, s)
        fake = ast.Assign(targets=[s.target], value=binop, lineno=s.lineno)
        return self.st_Assign(fake, st)

    def assign(self, t, v, st, vtype=None):
        """-> list of (state, exc or None)"""
        if isinstance(t, ast.Name):
            st.locals[t.id] = v
            if t.id in self.contract.types:
                st.ltypes[t.id] = self.contract.types[t.id]
            elif vtype:
                st.ltypes[t.id] = vtype
            else:
                st.ltypes.pop(t.id, None)
            return [(st, None)]
        if isinstance(t, ast.Attribute):
            out = []
            for st2, o, x in self.ev(t.value, st):
                if x is not None:
                    out.append((st2, x))
                    continue
                self.store_field(st2, o, t.attr, v)
                out.append((st2, None))
            return out
        if isinstance(t, (ast.Tuple, ast.List)):
            # fixed-arity unpacking of a tuple value
            cur = [(st, None)]
            st.assume(smt.tlen(v) == len(t.elts))
            for i, e in enumerate(t.elts):
                nxt = []
                for st2, x in cur:
                    if x is not None:
                        nxt.append((st2, x))
                    else:
                        nxt.extend(self.assign(e, smt.titem(v, z3.IntVal(i)), st2))
                cur = nxt
            return cur
        if isinstance(t, ast.Subscript):
            out = []
            for st2, o, x in self.ev(t.value, st):
                if x is not None:
                    out.append((st2, x))
                    continue
                ot = self.static_type(t.value, st2)
                if isinstance(t.slice, ast.Slice):
                    if ot == "list" and t.slice.lower is None and t.slice.upper is None:
                        # l[:] = other list
                        st2.heap.store("$llen", o, st2.heap.sel("$llen", v))
                        st2.heap.store("$litem", o, st2.heap.sel("$litem", v))
                        out.append((st2, None))
                        continue
                    raise Undecided("slice assignment")
                for st3, k, x3 in self.ev(t.slice, st2):
                    if x3 is not None:
                        out.append((st3, x3))
                        continue
                    if ot in ("dict", "OrderedDict"):
                        for s_ in self.dict_set(st3, o, k, v):
                            out.append((s_, None))
                    elif ot == "list":
                        i = as_int(k)
                        n = st3.heap.sel("$llen", o)
                        st3.assume(z3.And(0 <= i, i < n))
                        st3.heap.store("$litem", o, z3.Store(st3.heap.sel("$litem", o), i, v))
                        out.append((st3, None))
                    else:
                        r = self.call_by_hint(ast.unparse(t.value) + ".__setitem__", [o, k, v], {}, st3, t)
                        for st4, _v, x4 in r:
                            out.append((st4, x4))
            return out
        raise Undecided("assignment target %s" % type(t).__name__)

    def store_field(self, st, o, attr, v):
        self.mark_escapes(st, [v])
        s = field_sort(attr)
        if s == AVI:
            v = as_int(v)
        elif s == AVB:
            v = as_bool(v)
        st.heap.store(attr, o, v)
        if attr in self.reg.presence_fields:
            st.heap.store("$has:" + attr, o, z3.BoolVal(True))

    def st_Delete(self, s, st):
        cur = [(st, None)]
        for t in s.targets:
            nxt = []
            for st1, x1 in cur:
                if x1 is not None:
                    nxt.append((st1, x1))
                    continue
                if isinstance(t, ast.Attribute):
                    for st2, o, x in self.ev(t.value, st1):
                        if x is None:
                            st2.heap.store(t.attr, o, fresh_v("deleted"))
                            if t.attr in self.reg.presence_fields:
                                st2.heap.store("$has:" + t.attr, o, z3.BoolVal(False))
                        nxt.append((st2, x))
                elif isinstance(t, ast.Subscript):
                    ot = self.static_type(t.value, st1)
                    for st2, o, x in self.ev(t.value, st1):
                        if x is not None:
                            nxt.append((st2, x))
                            continue
                        if (ot == "list" and isinstance(t.slice, ast.Slice) and t.slice.step is None and t.slice.upper is None
                                and t.slice.lower is not None):
                            # del l[a:]  -- truncation (a >= 0: keep min(len, a) elements; a < 0: keep max(len + a, 0))
                            for st3, k, x3 in self.ev(t.slice.lower, st2):
                                if x3 is not None:
                                    nxt.append((st3, x3))
                                    continue
                                n = st3.heap.sel("$llen", o)
                                a_ = as_int(k)
                                keep = z3.If(a_ >= 0, z3.If(a_ < n, a_, n), z3.If(n + a_ > 0, n + a_, 0))
                                st3.heap.store("$llen", o, keep)
                                nxt.append((st3, None))
                            continue
                        for st3, k, x3 in self.ev(t.slice, st2):
                            if x3 is not None:
                                nxt.append((st3, x3))
                                continue
                            if ot in ("dict", "OrderedDict"):
                                nxt.extend(self.dict_del(st3, o, k))
                            else:
                                raise Undecided("del on %s" % ot)
                elif isinstance(t, ast.Name):
                    st1.locals.pop(t.id, None)
                    nxt.append((st1, None))
                else:
                    raise Undecided("del target")
            cur = nxt
        return [(s_, ("raise", x) if x is not None else NORMAL) for s_, x in cur]

    def st_Raise(self, s, st):
        if s.exc is None:
            if not st.exc_stack:
                raise Undecided("bare raise outside handler")
            return [(st, ("raise", st.exc_stack[-1]))]
        out = []
        # raise Cls  (no call)
        if isinstance(s.exc, ast.Name) and self.eng.ct.known(s.exc.id) and s.exc.id not in st.locals:
            e = self.new_exception(st, s.exc.id)
            return [(st, ("raise", e))]
        for st2, v, x in self.ev(s.exc, st):
            out.append((st2, ("raise", x if x is not None else v)))
        return out

    def st_If(self, s, st):
        out = []
        for st2, v, x in self.ev(s.test, st):
            if x is not None:
                out.append((st2, ("raise", x)))
                continue
            c = self.eng.truthy(v, st2.heap)
            c = z3.simplify(c)
            if z3.is_true(c):
                self.narrow_exact_types(s.test, st2)
                out.extend(self.exec_block(s.body, st2))
            elif z3.is_false(c):
                out.extend(self.exec_block(s.orelse, st2))
            else:
                a, b = st2.copy(), st2
                a.assume(c, "L%d: if true" % s.lineno)
                b.assume(z3.Not(c), "L%d: if false" % s.lineno)
                # isinstance(x, C) narrows the static type of x in the true branch
                t = s.test
                if (isinstance(t, ast.Call) and isinstance(t.func, ast.Name) and t.func.id == "isinstance" and len(t.args) == 2
                        and isinstance(t.args[0], ast.Name) and not isinstance(t.args[1], ast.Tuple)):
                    cn = ast.unparse(t.args[1]).split(".")[-1]
                    if self.eng.ct.known(cn):
                        a.ltypes[t.args[0].id] = cn
                self.narrow_exact_types(t, a)
                if self.feasible(a):
                    out.extend(self.exec_block(s.body, a))
                if self.feasible(b):
                    out.extend(self.exec_block(s.orelse, b))
        return out

    def narrow_exact_types(self, test, st):
        """`type(x) is T` (possibly inside and/or) in a branch condition: when the path condition of the
        taken branch implies typeof(x) == T for a built-in container T, record it as the static type of x
        (semantic narrowing: decided by the solver, not by the shape of the test)."""
        if self.dry:
            return
        cands = {}
        for n in ast.walk(test):
            if (isinstance(n, ast.Compare) and len(n.ops) == 1 and isinstance(n.ops[0], (ast.Is, ast.Eq))
                    and isinstance(n.left, ast.Call) and isinstance(n.left.func, ast.Name) and n.left.func.id == "type"
                    and len(n.left.args) == 1 and isinstance(n.left.args[0], ast.Name)
                    and isinstance(n.comparators[0], ast.Name) and n.comparators[0].id in ("tuple", "list", "dict")):
                cands.setdefault(n.left.args[0].id, set()).add(n.comparators[0].id)
        for name, ts in cands.items():
            if name not in st.locals or st.ltypes.get(name):
                continue
            v = st.locals[name]
            for tn in sorted(ts):
                sol = z3.Solver()
                sol.set("timeout", 500)
                sol.add(*self.eng.axioms())
                sol.add(*st.pc)
                sol.add(smt.typeof(v) != self.eng.ct.cls(tn))
                if sol.check() == z3.unsat:
                    st.ltypes[name] = tn
                    break

    def feasible(self, st):
        """Cheap pruning of dead paths (sound: only definite unsat prunes)."""
        if self.dry:
            return True
        self.paths += 1
        if self.paths < 24:
            return True
        s = z3.Solver()
        s.set("timeout", 300)
        s.add(*self.eng.axioms())
        s.add(*st.pc)
        return s.check() != z3.unsat

    # ---- try / with ----------------------------------------------------
    def st_Try(self, s, st):
        results = []
        body_outs = self.exec_block(s.body, st)
        after = []   # (state, outcome) before finally
        for st2, out in body_outs:
            if out is NORMAL:
                if s.orelse:
                    after.extend(self.exec_block(s.orelse, st2))
                else:
                    after.append((st2, out))
            elif out[0] == "raise" and s.handlers:
                after.extend(self.dispatch_handlers(s.handlers, st2, out[1]))
            else:
                after.append((st2, out))
        if not s.finalbody:
            return after
        for st2, out in after:
            for st3, fout in self.exec_block(s.finalbody, st2):
                results.append((st3, out if fout is NORMAL else fout))
        return results

    def handler_classes(self, h, st):
        if h.type is None:
            return None
        ts = h.type.elts if isinstance(h.type, ast.Tuple) else [h.type]
        out = []
        for t in ts:
            name = ast.unparse(t).split(".")[-1]
            if isinstance(t, ast.Name) and t.id in st.locals:
                out.append(("dyn", st.locals[t.id]))
            elif self.eng.ct.known(name):
                out.append(("cls", self.eng.ct.cls(name)))
            else:
                raise Undecided("unknown exception class %s" % name)
        return out

    def match_cond(self, classes, exc, st):
        if classes is None:
            return z3.BoolVal(True)
        cs = []
        for kind, k in classes:
            if kind == "cls":
                cs.append(smt.subclass(smt.typeof(exc), k))
            else:
                # a run-time class or tuple of classes: matches(k, exc) uninterpreted
                cs.append(EXC_MATCHES(k, exc))
        return z3.Or(*cs) if len(cs) > 1 else cs[0]

    def dispatch_handlers(self, handlers, st, exc):
        out = []
        rest = st
        for h in handlers:
            c = z3.simplify(self.match_cond(self.handler_classes(h, rest), exc, rest))
            if z3.is_false(c):
                continue
            hit = rest.copy()
            hit.assume(c, "L%d: except matches" % h.lineno)
            if self.feasible(hit):
                if h.name:
                    hit.locals[h.name] = exc
                    hit.ltypes.pop(h.name, None)
                hit.exc_stack.append(exc)
                for st2, o in self.exec_block(h.body, hit):
                    if st2.exc_stack and st2.exc_stack[-1] is exc:
                        st2.exc_stack.pop()
                    out.append((st2, o))
            if z3.is_true(c):
                rest = None
                break
            rest.assume(z3.Not(c))
        if rest is not None and self.feasible(rest):
            out.append((rest, ("raise", exc)))
        return out

    def st_With(self, s, st):
        if len(s.items) != 1:
            inner = ast.With(items=s.items[1:], body=s.body, lineno=s.lineno)
            s = ast.With(items=s.items[:1], body=[inner], lineno=s.lineno)
        item = s.items[0]
        out = []
        self.with_count = getattr(self, "with_count", {})
        wk = self.with_count.setdefault(id(s), len(self.with_count) + 1)
        for st2, mgr, x in self.ev(item.context_expr, st):
            if x is not None:
                out.append((st2, ("raise", x)))
                continue
            st2.locals["_with%d" % wk] = mgr      # the context manager object, for specifications
            text = ast.unparse(item.context_expr)
            for st3, ev_, x3 in self.call_by_hint(text + ".__enter__", [mgr], {}, st2, s, recv_type=self.static_type(item.context_expr, st2), meth="__enter__"):
                if x3 is not None:
                    out.append((st3, ("raise", x3)))
                    continue
                if item.optional_vars is not None:
                    for st4, x4 in self.assign(item.optional_vars, ev_, st3):
                        assert x4 is None
                for st4, o in self.exec_block(s.body, st3):
                    if o[0] == "raise":
                        args = [mgr, smt.typeof(o[1]), o[1], fresh_v("tb")]
                    else:
                        args = [mgr, NONE, NONE, NONE]
                    for st5, r, x5 in self.call_by_hint(text + ".__exit__", args, {}, st4, s, recv_type=self.static_type(item.context_expr, st4), meth="__exit__"):
                        if x5 is not None:
                            out.append((st5, ("raise", x5)))
                        elif o[0] == "raise":
                            sup = self.eng.truthy(r, st5.heap)
                            sup = z3.simplify(sup)
                            if z3.is_false(sup):
                                out.append((st5, o))
                            elif z3.is_true(sup):
                                out.append((st5, NORMAL))
                            else:
                                a, b = st5.copy(), st5
                                a.assume(sup)
                                b.assume(z3.Not(sup))
                                out.append((a, NORMAL))
                                out.append((b, o))
                        else:
                            out.append((st5, o))
        return out

    # ---- loops -----------------------------------------------------------
    def loop_common(self, node, st, body, setup_iter, label):
        """Generic invariant-cut loop.
        setup_iter(state) -> list of (state_in_body_or_None, state_exit_or_None) after assuming the invariant."""
        raise NotImplementedError

    def invariants_for(self, node):
        k = self.loop_ordinal(node)
        inv = self.contract.invariants.get(k)
        return k, inv

    def havoc_for_loop(self, node, st, body_nodes, extra_locals=()):
        """Havoc everything the loop body can modify.  The modified heap fields
        are found by a dry run of the body (all syntactic paths, no pruning,
        obligations discarded)."""
        k = self.loop_ordinal(node)
        names = assigned_names(body_nodes) | set(extra_locals)
        mods = self.contract.loop_modifies.get(k)
        if mods is None:
            probe = st.copy()
            self.probe_callees = set()
            self.dry += 1
            try:
                outs = self.exec_loop_body_probe(node, probe)
            finally:
                self.dry -= 1
            mods = set()
            whole = False
            ghosts = set()
            acls = set()
            for s2, _o in outs:
                acls |= set(s2.ghost.get("$alloc_cls", ())) - set(st.ghost.get("$alloc_cls", ()))
                ch = s2.heap.changed_fields(st.heap)
                if ch is None:
                    whole = True
                else:
                    mods.update(ch)
                for g, gv in s2.ghost.items():
                    if g not in st.ghost or not (z3.is_expr(gv) and z3.is_expr(st.ghost[g]) and gv.eq(st.ghost[g])):
                        if z3.is_expr(gv):
                            ghosts.add(g)
                for n in s2.locals:
                    if n not in st.locals or not s2.locals[n].eq(st.locals[n]):
                        names.add(n)
            if whole:
                mods = "*"
            keep = [o for o in st.unescaped if all(any(o.eq(u) for u in s2.unescaped) for s2, _o in outs)]
        else:
            ghosts = set()
            acls = None
            keep = []
        pre_heap = st.heap.copy()
        if mods == "*":
            st.heap = st.heap.havoc_all()
            for f in self.eng.wf(st.heap):
                st.assume(f)
            # fresh local objects the body never lets escape stay unreferenced by the rest of the heap
            # (their contents across iterations are the loop invariant's business)
            saved = st.unescaped
            st.unescaped = keep
            self.keep_unescaped(st, pre_heap, contents=False)
            st.unescaped = saved
        else:
            # fields the contract does not list as modified can only be written at objects allocated
            # inside this function: keep the loop-entry values of every pre-existing object (checked
            # again at the end of each iteration: obligation inv-step:loopK.frame:<field>)
            framed = []
            if self.contract.modifies != "*":
                framed = [f for f in sorted(mods) if f not in self.contract.modifies and f != "$alloc"]
            plain = [f for f in sorted(mods) if f not in framed]
            st.heap.havoc_fields(plain)
            al = pre_heap.get("$alloc")
            # local containers the loop itself mutates are excluded from the frame (their contents are the
            # loop invariant's business): contract label loop_mutates = {loop ordinal: [local names]}
            excl = [st.locals[n] for n in self.contract.labels.get("loop_mutates", {}).get(k, []) if n in st.locals]
            for f in framed:
                fr = z3.Const(fresh_name(f + "@lf"), field_sort(f))
                x = z3.Const(fresh_name("x!lf"), V)
                st.heap.set(f, fr)
                guard = z3.And(z3.Select(al, x), *[x != e for e in excl])
                st.assume(smt.forall([x], z3.Implies(guard, z3.Select(fr, x) == z3.Select(pre_heap.get(f), x)),
                                    patterns=[z3.Select(fr, x)]))
            self.loop_frames[k] = (framed, pre_heap, None)
            self.loop_excl[k] = excl
            if "$alloc" in mods:
                x = z3.Const(fresh_name("x!al"), V)
                st.assume(smt.forall([x], z3.Implies(pre_heap.sel("$alloc", x), st.heap.sel("$alloc", x))))
                only_direct = all(("$alloc" not in (self.reg.contracts[c].modifies if c in self.reg.contracts else []))
                                  for c in self.probe_callees)
                if acls is not None and only_direct and acls:
                    # everything allocated by earlier iterations is an instance of one of the classes the
                    # body allocates (checked at the end of each iteration)
                    cls = sorted(acls)
                    self.loop_frames[k] = (framed, pre_heap, cls)
                    y = z3.Const(fresh_name("y!al"), V)
                    st.assume(smt.forall([y], z3.Implies(z3.And(st.heap.sel("$alloc", y), z3.Not(pre_heap.sel("$alloc", y))),
                                                        z3.Or(*[smt.typeof_u(y) == self.eng.ct.cls(c) for c in cls])),
                                        patterns=[st.heap.sel("$alloc", y)]))
            for f in self.eng.wf(st.heap):
                st.assume(f)
        for n in sorted(names):
            if n in st.locals:
                st.locals[n] = fresh_v("L%d_%s" % (k, n))
            # static types of loop-assigned locals are forgotten unless declared
            if n in self.contract.types:
                st.ltypes[n] = self.contract.types[n]
            elif n in st.ltypes and n not in extra_locals:
                pass
        for g in sorted(ghosts):
            if g.startswith("$lineno") or g.startswith("$res:") or g.startswith("$callargs") or g not in st.ghost:
                continue
            old = st.ghost[g]
            if z3.is_expr(old):
                st.ghost[g] = z3.Const(fresh_name("g" + g), old.sort())
        return pre_heap

    def exec_loop_body_probe(self, node, st):
        if isinstance(node, ast.While):
            outs = []
            for st2, v, x in self.ev(node.test, st):
                if x is None:
                    outs.extend(self.exec_block(node.body, st2))
                outs.append((st2, NORMAL))
            return outs
        if isinstance(node, ast.For):
            # bind the target to an arbitrary value, run the body
            for n in assigned_names([node]):
                st.locals[n] = fresh_v("probe_" + n)
            self.probe_bind_for(node, st)
            return self.exec_block(node.body, st)
        return []

    def probe_bind_for(self, node, st):
        et = self.iter_elem_type(node.iter, st)
        if isinstance(node.target, ast.Name) and et:
            st.ltypes[node.target.id] = et

    def check_inv(self, st, k, inv, kind, pre, ln):
        env = self.spec_env(st, pre=pre)
        for i, p in enumerate(inv):
            self.oblige(st, kind, "loop%d.%d" % (k, i + 1), env.formula(p), ln)
        if kind == "inv-step" and k in self.loop_frames:
            framed, ph, cls = self.loop_frames[k]
            if cls:
                y = z3.Const(fresh_name("y!alc"), V)
                g = smt.forall([y], z3.Implies(z3.And(st.heap.sel("$alloc", y), z3.Not(ph.sel("$alloc", y))),
                                              z3.Or(*[smt.typeof_u(y) == self.eng.ct.cls(c) for c in cls])))
                self.oblige(st, kind, "loop%d.alloc-classes" % k, g, ln)
            for f in framed:
                x = z3.Const(fresh_name("x!lfc"), V)
                guard = z3.And(ph.sel("$alloc", x), *[x != e for e in self.loop_excl.get(k, [])])
                g = smt.forall([x], z3.Implies(guard, z3.Select(st.heap.get(f), x) == z3.Select(ph.get(f), x)))
                self.oblige(st, kind, "loop%d.frame:%s" % (k, f), g, ln)

    def assume_inv(self, st, inv, pre):
        env = self.spec_env(st, pre=pre)
        for p in inv:
            st.assume(env.formula(p))

    def st_While(self, s, st):
        k, inv = self.invariants_for(s)
        if inv is None:
            raise Undecided("loop %d of %s has no invariant" % (k, self.qual))
        if s.orelse:
            raise Undecided("while-else")
        pre0 = st.heap.copy()
        self.check_inv(st, k, inv, "inv-init", pre0, s.lineno)
        pre = self.havoc_for_loop(s, st, [s])
        self.assume_inv(st, inv, pre0)
        out = []
        for st2, v, x in self.ev(s.test, st):
            if x is not None:
                out.append((st2, ("raise", x)))
                continue
            c = z3.simplify(self.eng.truthy(v, st2.heap))
            if not z3.is_true(c):
                ex = st2.copy()
                ex.assume(z3.Not(c), "L%d: loop exits" % s.lineno)
                out.append((ex, NORMAL))
            if not z3.is_false(c):
                b = st2
                b.assume(c, "L%d: loop iterates" % s.lineno)
                for st3, o in self.exec_block(s.body, b):
                    if o is NORMAL or o is CONTINUE:
                        self.check_inv(st3, k, inv, "inv-step", pre0, s.lineno)
                    elif o is BREAK:
                        out.append((st3, NORMAL))
                    else:
                        out.append((st3, o))
        return out

    def iter_elem_type(self, it, st):
        t = self.static_type(it, st)
        if isinstance(it, ast.Attribute):
            bt = self.static_type(it.value, st)
            et = self.reg.elem_types.get((bt, it.attr))
            if et:
                return et
            # inherited
            if bt:
                for c in self.eng.ct.ancestors(bt) if self.eng.ct.known(bt) else []:
                    et = self.reg.elem_types.get((c, it.attr))
                    if et:
                        return et
        if isinstance(it, ast.Name):
            et = self.contract.types.get(it.id + "[]")
            if et:
                return et
        return None

    def st_For(self, s, st):
        k, inv = self.invariants_for(s)
        if inv is None:
            raise Undecided("loop %d of %s has no invariant" % (k, self.qual))
        if s.orelse:
            raise Undecided("for-else")
        it = s.iter
        out = []
        mode = None
        # --- classify the iterable
        rev = False
        inner = it
        if isinstance(it, ast.Call) and isinstance(it.func, ast.Name) and it.func.id == "reversed" and len(it.args) == 1:
            rev = True
            inner = it.args[0]
        if isinstance(inner, ast.Call) and isinstance(inner.func, ast.Name) and inner.func.id == "range" and not rev:
            mode = "range"
        dictview = None
        if (isinstance(inner, ast.Call) and isinstance(inner.func, ast.Attribute) and inner.func.attr in ("values", "keys", "items")
                and not inner.args and self.static_type(inner.func.value, st) in ("dict", "OrderedDict")):
            dictview = {"values": "$oval", "keys": "$okey", "items": "items"}[inner.func.attr]
            inner = inner.func.value
        for st2, seq, x in (self.ev(inner.args[0] if mode == "range" and len(inner.args) == 1 else inner, st)
                            if mode != "range" or len(inner.args) == 1 else [self._unsupported("range arity")]):
            if x is not None:
                out.append((st2, ("raise", x)))
                continue
            t = "int" if mode == "range" else self.static_type(inner, st2)
            if dictview:
                t = "dictview"
            et = self.iter_elem_type(inner, st2)
            idx = "_i%d" % k
            itn = "_it%d" % k
            st2.locals[itn] = seq
            if t == "set":
                out.extend(self.for_set(s, st2, seq, k, inv, et))
                continue
            if t not in ("list", "tuple", "int", "dictview"):
                hint = self.contract.calls.get("for:" + ast.unparse(it))
                if hint:
                    out.extend(self.for_iterator(s, st2, seq, k, inv, hint))
                    continue
                raise Undecided("for over %s (static type %s) at line %d" % (ast.unparse(it), t, s.lineno))

            def length(stx):
                if t == "list":
                    return stx.heap.sel("$llen", seq)
                if t == "dictview":
                    return stx.heap.sel("$olen", seq)
                if t == "tuple":
                    return smt.tlen(seq)
                return as_int(seq)

            def item(stx, i):
                if t == "list":
                    return z3.Select(stx.heap.sel("$litem", seq), i)
                if t == "dictview" and dictview == "items":
                    return self.new_tuple(stx, [z3.Select(stx.heap.sel("$okey", seq), i), z3.Select(stx.heap.sel("$oval", seq), i)])
                if t == "dictview":
                    return z3.Select(stx.heap.sel(dictview, seq), i)
                if t == "tuple":
                    return smt.titem(seq, i)
                return smt.box(i)
            if rev:
                st2.locals[idx] = smt.box(length(st2) - 1)
            else:
                st2.locals[idx] = smt.mk_int(0)
            st2.ltypes[idx] = "int"
            pre0 = st2.heap.copy()
            self.check_inv(st2, k, inv, "inv-init", pre0, s.lineno)
            self.havoc_for_loop(s, st2, [s], extra_locals=[idx])
            st2.locals[idx] = fresh_v("idx%d" % k)
            st2.assume(smt.typeof(st2.locals[idx]) == self.eng.ct.cls("int"))
            self.assume_inv(st2, inv, pre0)
            i = as_int(st2.locals[idx])
            if rev:
                c = i >= 0
                st2.assume(i < length(st2))
            else:
                c = i < length(st2)
                st2.assume(i >= 0)
            ex = st2.copy()
            ex.assume(z3.Not(c), "L%d: for exits" % s.lineno)
            out.append((ex, NORMAL))
            b = st2
            b.assume(c, "L%d: for iterates" % s.lineno)
            v = item(b, i)
            b.locals[idx] = smt.box(i - 1) if rev else smt.box(i + 1)
            if et and self.eng.ct.known(et):
                pass
            for st3, x3 in self.assign(s.target, v, b, et):
                for st4, o in self.exec_block(s.body, st3):
                    if o is NORMAL or o is CONTINUE:
                        self.check_inv(st4, k, inv, "inv-step", pre0, s.lineno)
                    elif o is BREAK:
                        out.append((st4, NORMAL))
                    else:
                        out.append((st4, o))
        return out

    def _unsupported(self, what):
        raise Undecided(what)

    def for_set(self, s, st, S, k, inv, et):
        """Iteration over a set in adversarial order: ghost `seen` set; each
        iteration takes an arbitrary unseen member."""
        out = []
        g = "_seen%d" % k
        st.ghost[g] = z3.K(V, z3.BoolVal(False))
        pre0 = st.heap.copy()
        self.check_inv(st, k, inv, "inv-init", pre0, s.lineno)
        self.havoc_for_loop(s, st, [s])
        st.ghost[g] = z3.Const(fresh_name("seen%d" % k), z3.ArraySort(V, z3.BoolSort()))
        seen = st.ghost[g]
        mem = st.heap.sel("$smem", S)
        y = z3.Const(fresh_name("y!seen"), V)
        st.assume(smt.forall([y], z3.Implies(z3.Select(seen, y), z3.Select(mem, y))))
        self.assume_inv(st, inv, pre0)
        ex = st.copy()
        y2 = z3.Const(fresh_name("y!ex"), V)
        ex.assume(smt.forall([y2], z3.Implies(z3.Select(mem, y2), z3.Select(seen, y2))), "L%d: set exhausted" % s.lineno)
        out.append((ex, NORMAL))
        b = st
        x = fresh_v("elem%d" % k)
        b.assume(z3.And(z3.Select(mem, x), z3.Not(z3.Select(seen, x)), b.heap.sel("$alloc", x)), "L%d: next set element" % s.lineno)
        b.ghost[g] = z3.Store(seen, x, z3.BoolVal(True))
        if et and self.eng.ct.known(et):
            b.assume(self.eng.isinstance_f(x, [self.eng.ct.cls(et)]))
        for st3, x3 in self.assign(s.target, x, b, et):
            for st4, o in self.exec_block(s.body, st3):
                if o is NORMAL or o is CONTINUE:
                    self.check_inv(st4, k, inv, "inv-step", pre0, s.lineno)
                elif o is BREAK:
                    out.append((st4, NORMAL))
                else:
                    out.append((st4, o))
        return out

    def for_iterator(self, s, st, itv, k, inv, hint):
        """for over an iterator object with an environment contract `hint`
        for its __next__ (StopIteration ends the loop)."""
        out = []
        pre0 = st.heap.copy()
        idx = "_i%d" % k
        st.locals[idx] = smt.mk_int(0)
        self.check_inv(st, k, inv, "inv-init", pre0, s.lineno)
        self.havoc_for_loop(s, st, [s], extra_locals=[idx])
        st.locals[idx] = fresh_v("idx%d" % k)
        st.assume(smt.typeof(st.locals[idx]) == self.eng.ct.cls("int"))
        st.assume(as_int(st.locals[idx]) >= 0)
        self.assume_inv(st, inv, pre0)
        for st2, v, x in self.apply_contract(self.get_contract(hint), [itv], {}, st, s, hint):
            if x is not None:
                stop = z3.simplify(smt.subclass(smt.typeof(x), self.eng.ct.cls("StopIteration")))
                a = st2.copy()
                a.assume(stop, "L%d: iterator exhausted" % s.lineno)
                out.append((a, NORMAL))
                st2.assume(z3.Not(stop))
                if self.feasible(st2):
                    out.append((st2, ("raise", x)))
                continue
            i = as_int(st2.locals[idx])
            et = self.contract.types.get(ast.unparse(s.target))
            if isinstance(s.target, ast.Tuple) and isinstance(s.iter, ast.Call) and getattr(s.iter.func, "id", "") == "enumerate":
                tgt_i, tgt_v = s.target.elts
                sts = self.assign(tgt_i, smt.box(i), st2, "int")
                sts = [y for (s_, _x) in sts for y in self.assign(tgt_v, v, s_, None)]
            else:
                sts = self.assign(s.target, v, st2, et)
            for st3, _x3 in sts:
                st3.locals[idx] = smt.box(i + 1)
                for st4, o in self.exec_block(s.body, st3):
                    if o is NORMAL or o is CONTINUE:
                        self.check_inv(st4, k, inv, "inv-step", pre0, s.lineno)
                    elif o is BREAK:
                        out.append((st4, NORMAL))
                    else:
                        out.append((st4, o))
        return out


EXC_MATCHES = z3.Function("exc_matches", V, V, z3.BoolSort())


def ast_load(t):
    import copy
    n = copy.deepcopy(t)
    for x in ast.walk(n):
        if hasattr(x, "ctx"):
            x.ctx = ast.Load()
    return n
