"""Specification expression language.

Contracts are written as Python *expressions* (strings) over the function's
parameters (entry values), `result`, `exc`, current locals (loop invariants),
and the spec vocabulary below.  They are parsed with `ast` and translated to
z3 over a pair of heaps (old = function entry, cur = the state at which the
clause is evaluated).

  x.f                 field f of x in the current heap        (old(x.f): at entry)
  len(l), l[i]        length / item of a list object
  tlen(t), titem(t,i) length / item of a tuple value
  has(s, x)           set membership
  dhas(d,k), dget(d,k) unordered dict view; olen(d), okey(d,i), oval(d,i) ordered view
  a is b, a == b      identity on values (ints compare by payload)
  implies(a,b), iff(a,b), not/and/or, a if c else b
  all(P for i in range(lo,hi)), any(...)      bounded integer quantifiers
  all(P for x in objs(K)), any(...)           over allocated instances of K (objs() = all allocated)
  all(P for x in vals())                      over all values
  old(e), pre(e)      e at function entry / at loop entry
  isinstance(x, K), typeof(x), computed(f), fresh(x), alloc(x)
  unchanged('f'), updated('f', o, v), same_heap(), only(o, 'f', ...)  frame vocabulary
  opt('NAME')         the debug option (symbolic boolean / integer)
  int(x)              integer payload of a value
plus macros and python-defined functions registered by the contracts package.
"""
import ast
import z3
from . import smt
from .smt import V, NONE, TRUE, FALSE, NONE_MARK
from .state import fresh_name


class SpecError(Exception):
    pass


def is_bool(x):
    return z3.is_expr(x) and x.sort() == z3.BoolSort()


def is_int(x):
    return z3.is_expr(x) and x.sort() == z3.IntSort()


def is_v(x):
    return z3.is_expr(x) and x.sort() == V


def as_v(x):
    if isinstance(x, bool):
        return TRUE if x else FALSE
    if isinstance(x, int):
        return smt.mk_int(x)
    if is_v(x):
        return x
    if is_bool(x):
        return smt.b2v(x)
    if is_int(x):
        return smt.box(x)
    raise SpecError("cannot coerce %r to a value" % (x,))


def as_bool(x):
    if isinstance(x, bool):
        return z3.BoolVal(x)
    if is_bool(x):
        return x
    if is_v(x):
        if smt.is_bval_app(x):
            return x.arg(0)
        return z3.And(V.is_bval(x), V.bv(x))
    if is_int(x):
        return x != 0
    raise SpecError("cannot coerce %r to bool" % (x,))


def as_int(x):
    if isinstance(x, bool):
        return z3.IntVal(1 if x else 0)
    if isinstance(x, int):
        return z3.IntVal(x)
    if is_int(x):
        return x
    if is_v(x):
        return smt.int_of(x)
    if is_bool(x):
        return z3.If(x, 1, 0)
    raise SpecError("cannot coerce %r to int" % (x,))


class SpecEnv:
    def __init__(self, eng, names, cur, old, pre=None, result=None, exc=None, ghost=None, fx=None):
        self.eng = eng
        self.names = names
        self.cur = cur
        self.old = old
        self.pre = pre
        self.result = result
        self.exc = exc
        self.ghost = ghost or {}
        self.fx = fx
        self.params = set()   # parameter names of the contract being evaluated (they win over the keywords result/exc)
        self.callsite = False  # True when a CALLEE's contract is evaluated at a call site: the callee's path ghosts
        #                        (callcount, call_before, last_result, call_arg) are unknown to the caller
        self.heap = cur       # the heap expressions are currently evaluated in

    def with_heap(self, h):
        e = SpecEnv(self.eng, self.names, self.cur, self.old, self.pre, self.result, self.exc, self.ghost, self.fx)
        e.heap = h
        e.params = self.params
        e.callsite = self.callsite
        return e

    def bind(self, extra):
        n = dict(self.names)
        n.update(extra)
        e = SpecEnv(self.eng, n, self.cur, self.old, self.pre, self.result, self.exc, self.ghost, self.fx)
        e.heap = self.heap
        e.params = self.params
        e.callsite = self.callsite
        return e

    # -------------------------------------------------------------
    def formula(self, text):
        try:
            tree = ast.parse(text.strip().replace("$", "GH_"), mode="eval").body
        except SyntaxError as e:
            raise SpecError("bad spec %r: %s" % (text, e))
        return as_bool(self.ev(tree))

    def ev(self, e):
        m = getattr(self, "ev_" + type(e).__name__, None)
        if m is None:
            raise SpecError("unsupported spec syntax %s in %s" % (type(e).__name__, ast.unparse(e)))
        return m(e)

    def ev_Constant(self, e):
        v = e.value
        if v is None:
            return NONE
        if v is True:
            return z3.BoolVal(True)
        if v is False:
            return z3.BoolVal(False)
        if isinstance(v, int):
            return z3.IntVal(v)
        if isinstance(v, str):
            return smt.const("str:" + v)
        raise SpecError("constant %r" % (v,))

    def ev_Name(self, e):
        n = e.id
        is_param = n in self.params
        if n == "retval" and self.result is not None:
            return self.result
        if n == "result" and self.result is not None and not is_param:
            return self.result          # the spec keyword wins over a local variable (not a parameter) of the same name
        if n == "exc" and self.exc is not None and not is_param:
            return self.exc
        if n in self.names:
            return self.names[n]
        if n == "result":
            if self.result is None:
                raise SpecError("`result` not available here")
            return self.result
        if n == "exc":
            if self.exc is None:
                raise SpecError("`exc` not available here")
            return self.exc
        if n == "_none":
            return NONE_MARK
        if n in self.ghost:
            return self.ghost[n]
        if self.eng.ct.known(n):
            return self.eng.ct.cls(n)
        gv = self.eng.reg.global_values.get(n)
        if gv is not None:
            return gv(self.eng)
        raise SpecError("unknown name %s in spec" % n)

    def ev_Attribute(self, e):
        o = as_v(self.ev(e.value))
        attr = e.attr
        if attr.startswith("GH_"):
            attr = "$" + attr[3:]
        r = self.heap.sel(attr, o)
        return r

    def ev_Subscript(self, e):
        o = as_v(self.ev(e.value))
        i = as_int(self.ev(e.slice))
        return z3.Select(self.heap.sel("$litem", o), i)

    def ev_UnaryOp(self, e):
        if isinstance(e.op, ast.Not):
            return z3.Not(as_bool(self.ev(e.operand)))
        if isinstance(e.op, ast.USub):
            return -as_int(self.ev(e.operand))
        raise SpecError("unary op")

    def ev_BoolOp(self, e):
        vs = [as_bool(self.ev(v)) for v in e.values]
        return z3.And(*vs) if isinstance(e.op, ast.And) else z3.Or(*vs)

    def ev_BinOp(self, e):
        a, b = as_int(self.ev(e.left)), as_int(self.ev(e.right))
        if isinstance(e.op, ast.Add):
            return a + b
        if isinstance(e.op, ast.Sub):
            return a - b
        if isinstance(e.op, ast.Mult):
            return a * b
        raise SpecError("binary op %s" % type(e.op).__name__)

    def ev_IfExp(self, e):
        c = as_bool(self.ev(e.test))
        a, b = self.ev(e.body), self.ev(e.orelse)
        if is_bool(a) or is_bool(b):
            return z3.If(c, as_bool(a), as_bool(b))
        if is_int(a) and is_int(b):
            return z3.If(c, a, b)
        return z3.If(c, as_v(a), as_v(b))

    def ev_Compare(self, e):
        left = self.ev(e.left)
        out = []
        for op, r in zip(e.ops, e.comparators):
            right = self.ev(r)
            out.append(self._cmp(op, left, right))
            left = right
        return z3.And(*out) if len(out) > 1 else out[0]

    def _cmp(self, op, a, b):
        if isinstance(op, (ast.Is, ast.Eq, ast.IsNot, ast.NotEq)):
            if (is_int(a) or isinstance(a, int)) and (is_int(b) or isinstance(b, int)):
                r = as_int(a) == as_int(b)
            elif is_bool(a) and is_bool(b):
                r = a == b
            elif (is_int(a) and is_v(b)) or (is_v(a) and is_int(b)):
                r = as_int(a) == as_int(b) if isinstance(op, (ast.Eq, ast.NotEq)) else as_v(a) == as_v(b)
            else:
                r = as_v(a) == as_v(b)
            return z3.Not(r) if isinstance(op, (ast.IsNot, ast.NotEq)) else r
        a, b = as_int(a), as_int(b)
        if isinstance(op, ast.Lt):
            return a < b
        if isinstance(op, ast.LtE):
            return a <= b
        if isinstance(op, ast.Gt):
            return a > b
        if isinstance(op, ast.GtE):
            return a >= b
        raise SpecError("comparison")

    # -------------------------------------------------------------
    def ev_Call(self, e):
        if not isinstance(e.func, ast.Name):
            raise SpecError("spec call target must be a name: " + ast.unparse(e))
        f = e.func.id
        a = e.args
        if f == "old":
            return self.with_heap(self.old).ev(a[0])
        if f == "pre":
            if self.pre is None:
                raise SpecError("pre() outside a loop")
            return self.with_heap(self.pre).ev(a[0])
        if f == "now":
            return self.with_heap(self.cur).ev(a[0])
        if f == "implies":
            return z3.Implies(as_bool(self.ev(a[0])), as_bool(self.ev(a[1])))
        if f == "iff":
            return as_bool(self.ev(a[0])) == as_bool(self.ev(a[1]))
        if f in ("all", "any"):
            return self._quant(f, a[0])
        if f == "len":
            return self.heap.sel("$llen", as_v(self.ev(a[0])))
        if f == "tlen":
            return smt.tlen(as_v(self.ev(a[0])))
        if f == "titem":
            return smt.titem(as_v(self.ev(a[0])), as_int(self.ev(a[1])))
        if f == "has":
            return z3.Select(self.heap.sel("$smem", as_v(self.ev(a[0]))), as_v(self.ev(a[1])))
        if f == "dhas":
            return z3.Select(self.heap.sel("$dhas", as_v(self.ev(a[0]))), as_v(self.ev(a[1])))
        if f == "dget":
            return z3.Select(self.heap.sel("$dget", as_v(self.ev(a[0]))), as_v(self.ev(a[1])))
        if f == "olen":
            return self.heap.sel("$olen", as_v(self.ev(a[0])))
        if f == "okey":
            return z3.Select(self.heap.sel("$okey", as_v(self.ev(a[0]))), as_int(self.ev(a[1])))
        if f == "oval":
            return z3.Select(self.heap.sel("$oval", as_v(self.ev(a[0]))), as_int(self.ev(a[1])))
        if f == "isinstance":
            x = as_v(self.ev(a[0]))
            return self.eng.isinstance_f(x, self._classes(a[1]))
        if f == "exact":
            x = as_v(self.ev(a[0]))
            return smt.typeof(x) == self._classes(a[1])[0]
        if f == "typeof":
            return smt.typeof(as_v(self.ev(a[0])))
        if f == "subclass":
            return smt.subclass(as_v(self.ev(a[0])), as_v(self.ev(a[1])))
        if f == "computed":
            return self.heap.sel("_value", as_v(self.ev(a[0]))) != NONE_MARK
        if f == "alloc":
            return self.heap.sel("$alloc", as_v(self.ev(a[0])))
        if f == "fresh":
            x = as_v(self.ev(a[0]))
            return z3.And(z3.Not(self.old.sel("$alloc", x)), self.cur.sel("$alloc", x))
        if f == "field":
            # field(o, 'name'): attribute whose name is not a valid identifier in the spec language (e.g. 'async')
            return self.heap.sel(self._str(a[1]), as_v(self.ev(a[0])))
        if f == "hasattr":
            return self.heap.sel("$has:" + self._str(a[1]), as_v(self.ev(a[0])))
        if f == "no_callout":
            # true iff no whole-heap havoc (callout to unknown code) happened since entry on this path.
            # Decided syntactically when the callee body is verified; carries no information for callers.
            if self.fx is not None and self.fx.entry_heap is self.old:
                return z3.BoolVal(self.cur.epoch == self.old.epoch)
            return z3.BoolVal(True)
        if f == "raised_by":
            # raised_by('contract'): the exception in flight was raised by a call of that contract on this path (and merely
            # propagated, possibly through handlers that re-raise the same object).  Syntactic path ghost; callee-side only.
            if self.callsite or self.exc is None:
                return z3.Const(fresh_name("raised_by?"), z3.BoolSort())
            return z3.BoolVal(self.ghost.get("$raised:" + str(self.exc)) == self._str(a[0]))
        if f == "callcount":
            # number of calls of the named contract on this path (syntactic path ghost; callee-side only)
            n = self._str(a[0])
            if self.callsite:
                return z3.Const(fresh_name("callcount?"), z3.IntSort())      # unknown to the caller
            return z3.IntVal(int(self.ghost.get("$calls:" + n, 0)))
        if self.callsite and f in ("call_arg", "call_star", "call_dstar", "call_kw", "last_result"):
            return z3.Const(fresh_name(f + "?"), V)
        if self.callsite and f == "call_nargs":
            return z3.Const(fresh_name("nargs?"), z3.IntSort())
        if self.callsite and f == "call_before":
            return z3.BoolVal(True)
        if f in ("call_arg", "call_star", "call_dstar", "call_nargs", "call_kw"):
            ca = self.ghost.get("$callargs")
            if ca is None:
                raise SpecError("%s() outside a call-site clause" % f)
            pos, star, dstar, kws = ca
            if f == "call_nargs":
                return z3.IntVal(len(pos))
            if f == "call_arg":
                i = a[0].value
                if i >= len(pos):
                    return smt.const("missing-argument-%d" % i)
                return pos[i]
            if f == "call_kw":
                d = dict(kws)
                return d.get(self._str(a[0]), smt.const("missing-keyword"))
            v = star if f == "call_star" else dstar
            return v if v is not None else smt.const("no-star-argument")
        if f == "last_result":
            r = self.ghost.get("$res:" + self._str(a[0]))
            if r is None:
                return smt.const("no-such-call")
            return r
        if f == "call_before":
            # on this path every call of contract a precedes every call of contract b (syntactic path ghost)
            seq = list(self.ghost.get("$callseq", ()))
            na, nb = self._str(a[0]), self._str(a[1])
            ia = [i for i, n in enumerate(seq) if n == na]
            ib = [i for i, n in enumerate(seq) if n == nb]
            return z3.BoolVal((not ia) or (not ib) or max(ia) < min(ib))
        if f in ("set_add", "set_remove"):
            sv = as_v(self.ev(a[0]))
            x = as_v(self.ev(a[1]))
            o = self.old.get("$smem")
            return self.cur.get("$smem") == z3.Store(o, sv, z3.Store(z3.Select(o, sv), x, z3.BoolVal(f == "set_add")))
        if f == "lt":
            from .exprs import PY_LT
            return PY_LT(as_v(self.ev(a[0])), as_v(self.ev(a[1])))
        if f == "lt_transitive":
            from .exprs import PY_LT
            x, y, w = [z3.Const(fresh_name(n), V) for n in ("x!lt", "y!lt", "w!lt")]
            return z3.And(smt.forall([x, y, w], z3.Implies(z3.And(PY_LT(x, y), PY_LT(y, w)), PY_LT(x, w)),
                                    patterns=[z3.MultiPattern(PY_LT(x, y), PY_LT(y, w))]),
                          smt.forall([x], z3.Not(PY_LT(x, x)), patterns=[PY_LT(x, x)]),
                          # total (strict weak) order: incomparability is transitive
                          smt.forall([x, y, w], z3.Implies(z3.And(z3.Not(PY_LT(x, y)), z3.Not(PY_LT(y, w))), z3.Not(PY_LT(x, w))),
                                     patterns=[z3.MultiPattern(PY_LT(x, y), PY_LT(y, w)), z3.MultiPattern(PY_LT(x, y), PY_LT(x, w)),
                                               z3.MultiPattern(PY_LT(y, w), PY_LT(x, w))]))
        if f == "seen":
            k = [g for g in self.ghost if g.startswith("_seen")]
            if not k:
                raise SpecError("seen() outside a set loop")
            return z3.Select(self.ghost[sorted(k)[-1]], as_v(self.ev(a[0])))
        if f == "same_heap":
            r = self.cur.same_as(self.old)
            if r is None:
                raise SpecError("same_heap() across a whole-heap havoc")
            return r
        if f == "unchanged":
            cs = []
            for x in a:
                n = self._str(x)
                cs.append(self.cur.get(n) == self.old.get(n))
            return z3.And(*cs)
        if f == "unchanged_since_pre":
            cs = []
            for x in a:
                n = self._str(x)
                cs.append(self.cur.get(n) == self.pre.get(n))
            return z3.And(*cs)
        if f == "updated":
            n = self._str(a[0])
            o = as_v(self.ev(a[1]))
            val = self.ev(a[2])
            from .state import field_sort, AVI, AVB
            s = field_sort(n)
            val = as_int(val) if s == AVI else as_bool(val) if s == AVB else as_v(val)
            return self.cur.get(n) == z3.Store(self.old.get(n), o, val)
        if f in ("only", "only_pre"):
            # only(o, 'f1', 'f2'): fields f1,f2 changed at most at object o (only_pre: since loop entry)
            o = as_v(self.ev(a[0]))
            cs = []
            x = z3.Const(fresh_name("x!only"), V)
            base = self.old if f == "only" else self.pre
            for fn_ in a[1:]:
                n = self._str(fn_)
                cs.append(smt.forall([x], z3.Implies(x != o, z3.Select(self.cur.get(n), x) == z3.Select(base.get(n), x)),
                                    patterns=[z3.Select(self.cur.get(n), x)]))
            return z3.And(*cs)
        if f in ("only_fresh", "only_fresh_pre"):
            # only_fresh('f1', 'f2'): fields f1, f2 changed at most at objects that were not allocated at entry (since loop entry)
            cs = []
            x = z3.Const(fresh_name("x!of"), V)
            base = self.old if f == "only_fresh" else self.pre
            for fn_ in a:
                n = self._str(fn_)
                cs.append(smt.forall([x], z3.Implies(self.old.sel("$alloc", x), z3.Select(self.cur.get(n), x) == z3.Select(base.get(n), x)),
                                    patterns=[z3.Select(self.cur.get(n), x)]))
            return z3.And(*cs)
        if f == "opt":
            return self.eng.option(self._str(a[0]))
        if f == "int":
            return as_int(self.ev(a[0]))
        if f == "box":
            return as_v(as_int(self.ev(a[0])))
        if f == "truthy":
            return self.eng.truthy(as_v(self.ev(a[0])), self.heap)
        if f == "ident":
            return smt.ident(as_v(self.ev(a[0])))
        if f == "inv":
            return z3.And(*self.eng.inv(self.heap))
        if f == "two_state":
            # two_state('old'|'pre'): TwoState(that heap, current evaluation heap)
            which = self._str(a[0]) if a else "old"
            h0 = self.old if which == "old" else self.pre
            skip = tuple(self._str(x) for x in a[1:])
            return z3.And(*self.eng.two_state(h0, self.heap, skip))
        if f in self.eng.reg.macros:
            params, text = self.eng.reg.macros[f]
            if len(params) != len(a):
                raise SpecError("macro %s arity" % f)
            vals = [self.ev(x) for x in a]
            sub = self.bind(dict(zip(params, vals)))
            return sub.ev(ast.parse(text.strip().replace("$", "GH_"), mode="eval").body)
        if f in self.eng.reg.pyfuncs:
            vals = [self.ev(x) for x in a]
            return self.eng.reg.pyfuncs[f](self, *vals)
        raise SpecError("unknown spec function %s" % f)

    def _str(self, e):
        if isinstance(e, ast.Constant) and isinstance(e.value, str):
            return e.value.replace("GH_", "$")
        raise SpecError("string literal expected: " + ast.unparse(e))

    def _classes(self, e):
        if isinstance(e, ast.Tuple):
            return [self.eng.ct.cls(x.id) for x in e.elts]
        if isinstance(e, ast.Name) and self.eng.ct.known(e.id):
            return [self.eng.ct.cls(e.id)]
        return [as_v(self.ev(e))]

    def _quant(self, kind, gen):
        if not isinstance(gen, ast.GeneratorExp) or len(gen.generators) != 1:
            raise SpecError("all/any need one generator")
        g = gen.generators[0]
        if not isinstance(g.target, ast.Name) or not isinstance(g.iter, ast.Call) or not isinstance(g.iter.func, ast.Name):
            raise SpecError("quantifier form: " + ast.unparse(gen))
        var = g.target.id
        dom = g.iter.func.id
        if dom == "range":
            i = z3.Const(fresh_name(var), z3.IntSort())
            args = [as_int(self.ev(x)) for x in g.iter.args]
            lo, hi = (z3.IntVal(0), args[0]) if len(args) == 1 else (args[0], args[1])
            guard = z3.And(lo <= i, i < hi)
            bv = i
        elif dom == "ints":
            i = z3.Const(fresh_name(var), z3.IntSort())
            guard = z3.BoolVal(True)
            bv = i
        elif dom == "objs":
            x = z3.Const(fresh_name(var), V)
            guard = self.heap.sel("$alloc", x)
            if g.iter.args:
                guard = z3.And(guard, self.eng.isinstance_f(x, self._classes(g.iter.args[0])))
            bv = x
        elif dom == "vals":
            x = z3.Const(fresh_name(var), V)
            guard = z3.BoolVal(True)
            bv = x
        else:
            raise SpecError("quantifier domain %s" % dom)
        sub = self.bind({var: bv})
        for cond in g.ifs:
            guard = z3.And(guard, as_bool(sub.ev(cond)))
        body = as_bool(sub.ev(gen.elt))
        if kind == "all":
            return smt.forall([bv], z3.Implies(guard, body))
        return z3.Exists([bv], z3.And(guard, body))
