#!/usr/bin/env python3
"""dev helper: apply a textual mutation to a scratch copy of /repo/asynq and verify functions.
usage: mutcheck.py <module.py> <old> <new> <qualname>..."""
import os, shutil, subprocess, sys, tempfile
mod, old, new = sys.argv[1:4]
quals = sys.argv[4:]
d = tempfile.mkdtemp(prefix="asynq_mut_")
try:
    os.makedirs(d + "/asynq")
    for f in os.listdir("/repo/asynq"):
        if f.endswith((".py", ".pxd")):
            shutil.copy("/repo/asynq/" + f, d + "/asynq/" + f)
    p = d + "/asynq/" + mod
    s = open(p).read()
    assert s.count(old) >= 1, "pattern not found"
    open(p, "w").write(s.replace(old, new, 1))
    env = dict(os.environ, ASYNQ_VERIF_REPO=d, PYTHONPATH="/verif")
    r = subprocess.run(["python3-vt", "-m", "pyvc.verify"] + quals, env=env, cwd="/verif", capture_output=True, text=True)
    print(r.stdout[-3000:], r.stderr[-2000:])
finally:
    shutil.rmtree(d)
