"""Contracts for asynq/scheduler.py (C05, C08, local parts of C02/C03/C04/C06)."""
import z3
from pyvc import smt
from pyvc.smt import V, NONE, NONE_MARK
from pyvc.state import fresh_name
from pyvc.contract import Contract as C

S = "scheduler.TaskScheduler."
ELIGIBLE = "eligible"


def q(n):
    return z3.Const(fresh_name(n), V)


def register(reg, repo):
    reg.elem_types[("TaskScheduler", "_tasks")] = "FutureBase"
    reg.elem_types[("TaskScheduler", "_batches")] = "BatchBase"
    reg.field_types[("TaskScheduler", "active_task")] = "AsyncTask"
    reg.field_types[("TaskScheduler", "on_before_batch_flush")] = "EventHook"
    reg.field_types[("TaskScheduler", "on_after_batch_flush")] = "EventHook"
    reg.field_types[("LocalTaskSchedulerState", "current")] = "TaskScheduler"
    reg.macro("eligible", ["b"], "len(b.items) > 0 and not computed(b)")
    reg.macro("blocked", ["t"], "any(not computed(t._dependencies[j]) for j in range(0, len(t._dependencies)))")
    # the stack below height h is untouched (same list object, same prefix)
    reg.macro("stack_kept", ["s", "h"],
              "s._tasks is old(s._tasks) and all(s._tasks[j] is old(s._tasks[j]) for j in range(0, h))")

    # ---- I-Sched ------------------------------------------------------------------------------
    def inv_sched(eng, heap):
        s = q("s!inv")
        j = z3.Int(fresh_name("j!inv"))
        b = q("b!inv")
        g = z3.And(heap.sel("$alloc", s), eng.isinstance_f(s, [eng.ct.cls("TaskScheduler")]))
        tl = heap.sel("_tasks", s)
        el = z3.Select(heap.sel("$litem", tl), j)
        bs = heap.sel("_batches", s)
        s2 = q("s2!inv")
        g2 = z3.And(heap.sel("$alloc", s2), eng.isinstance_f(s2, [eng.ct.cls("TaskScheduler")]))
        bb = q("bb!inv")
        gb = z3.And(heap.sel("$alloc", bb), eng.isinstance_f(bb, [eng.ct.cls("BatchBase")]))
        return [
            smt.forall([s, j], z3.Implies(z3.And(g, 0 <= j, j < heap.sel("$llen", tl)),
                                         z3.And(heap.sel("$alloc", el), eng.isinstance_f(el, [eng.ct.cls("FutureBase")]))),
                      patterns=[z3.Select(heap.sel("$litem", heap.sel("_tasks", s)), j)]),
            smt.forall([s, b], z3.Implies(z3.And(g, z3.Select(heap.sel("$smem", bs), b)),
                                         z3.And(heap.sel("$alloc", b), eng.isinstance_f(b, [eng.ct.cls("BatchBase")]))),
                      patterns=[z3.Select(heap.sel("$smem", heap.sel("_batches", s)), b)]),
            smt.forall([s], z3.Implies(g, z3.Or(heap.sel("active_task", s) == NONE,
                                               z3.And(heap.sel("$alloc", heap.sel("active_task", s)),
                                                      eng.isinstance_f(heap.sel("active_task", s), [eng.ct.cls("AsyncTask")])))),
                      patterns=[heap.sel("active_task", s)]),
            # ownership: a scheduler's stack is not shared with another scheduler nor with a batch's items list
            smt.forall([s, s2], z3.Implies(z3.And(g, g2, s != s2), heap.sel("_tasks", s) != heap.sel("_tasks", s2)),
                      patterns=[z3.MultiPattern(heap.sel("_tasks", s), heap.sel("_tasks", s2))]),
            smt.forall([s, bb], z3.Implies(z3.And(g, gb), heap.sel("_tasks", s) != heap.sel("items", bb)),
                      patterns=[z3.MultiPattern(heap.sel("_tasks", s), heap.sel("items", bb))]),
        ]
    reg.inv_hooks.append(inv_sched)

    # ---- T-sched: unless the scheduler was reset (its stack list replaced), a callout leaves the stack,
    #      the active task and the batch set object as they were (re-entrant use is balanced)
    def ts_sched(eng, old, new, skip=(), exclude=None):
        if "sched" in skip:
            return []
        s = q("s!ts")
        g = z3.And(old.sel("$alloc", s), eng.isinstance_f(s, [eng.ct.cls("TaskScheduler")]))
        if exclude is not None:
            g = z3.And(g, s != exclude)
        tl = old.sel("_tasks", s)
        ntl = new.sel("_tasks", s)
        jj = z3.Int(fresh_name("j!ts"))
        return [smt.forall([s], z3.Implies(g, z3.Or(ntl == tl, z3.Not(old.sel("$alloc", ntl)))),
                          patterns=[new.sel("_tasks", s)]),
                smt.forall([s], z3.Implies(z3.And(g, new.sel("_tasks", s) == tl),
                                          z3.And(new.sel("$llen", tl) == old.sel("$llen", tl),
                                                 new.sel("active_task", s) == old.sel("active_task", s),
                                                 new.sel("_batches", s) == old.sel("_batches", s))),
                          patterns=[new.sel("_tasks", s), new.sel("active_task", s)]),
                # elements below the height are the same (slots above it are garbage)
                smt.forall([s, jj], z3.Implies(z3.And(g, new.sel("_tasks", s) == tl, 0 <= jj, jj < old.sel("$llen", tl)),
                                              z3.Select(new.sel("$litem", tl), jj) == z3.Select(old.sel("$litem", tl), jj)),
                          patterns=[z3.Select(new.sel("$litem", new.sel("_tasks", s)), jj),
                                    z3.Select(new.sel("$litem", old.sel("_tasks", s)), jj)])]
    reg.two_state_hooks.append(ts_sched)
    reg.pyfuncs["ts_sched_others"] = lambda env, me: z3.And(*ts_sched(env.eng, env.old, env.heap, (), me))

    # cntu(l, i): number of uncomputed futures among l[0:i]  (recursive spec function, definitional axioms)
    from pyvc.state import AIV, AVV
    CNT = z3.Function("cnt_uncomputed", AIV, AVV, z3.IntSort(), z3.IntSort())

    def cntu(env, l, i):
        from pyvc.spec import as_int, as_v
        row = env.heap.sel("$litem", as_v(l))
        va = env.heap.get("_value")
        if env.fx is not None and "cntu" not in env.fx.extra_axioms:
            r = z3.Const("r!cnt", AIV)
            a = z3.Const("a!cnt", AVV)
            k = z3.Int("k!cnt")
            m_ = z3.Int("m!cnt")
            env.fx.extra_axioms["cntu"] = z3.And(
                z3.ForAll([r, a], CNT(r, a, 0) == 0, patterns=[CNT(r, a, 0)]),
                z3.ForAll([r, a, k], z3.Implies(k >= 0, CNT(r, a, k + 1) == CNT(r, a, k) + z3.If(z3.Select(a, z3.Select(r, k)) == NONE_MARK, 1, 0)),
                          patterns=[CNT(r, a, k)]),
                z3.ForAll([r, a, k], z3.Implies(k >= 0, CNT(r, a, k) >= 0), patterns=[CNT(r, a, k)]),
                # lemma (by induction on m from the two defining equations; discharged separately as
                # lemma:cnt-monotone): an uncomputed element at k is counted by every later prefix
                z3.ForAll([r, a, k, m_], z3.Implies(z3.And(0 <= k, k < m_),
                                                    CNT(r, a, k) + z3.If(z3.Select(a, z3.Select(r, k)) == NONE_MARK, 1, 0) <= CNT(r, a, m_)),
                          patterns=[z3.MultiPattern(CNT(r, a, k), CNT(r, a, m_))]))
        return CNT(row, va, as_int(i))
    reg.pyfuncs["cntu"] = cntu

    # ---- event hooks around a flush -----------------------------------------------------------------
    reg.add(C("env.before_flush", params=["self", "batch"], kind="method", modifies="*", trusted=True,
              post=[], xpost=["True"], note="on_before_batch_flush(batch): subscribers are unknown code"))
    reg.add(C("env.after_flush", params=["self", "batch"], kind="method", modifies="*", trusted=True,
              post=[], xpost=["True"], note="on_after_batch_flush(batch): subscribers are unknown code"))

    reg.add(C(S + "try_time_based_dump", modifies=["_last_dump_time"], post=[], xpost=None, trusted=True,
              note="diagnostic (body checked under C18)"))
    reg.add(C(S + "dump", modifies=[], post=[], xpost=None, trusted=True, note="diagnostic (C18)"))
    reg.add(C("batching.BatchBase.dump_perf_stats", modifies=["_total_time", "stats_log"], post=[], xpost=None,
              trusted=True, note="profiling sink (range obligations under C20)"))
    reg.add(C("qcore.utime", params=[], modifies=[], post=[], xpost=None, trusted=True, returns_type="int",
              note="clock: unconstrained integer"))
    reg.global_calls["utime"] = "qcore.utime"

    # ---- reset / init -----------------------------------------------------------------------------------
    reg.add(C(S + "reset", modifies=["_batches", "_tasks", "active_task", "$alloc"],
              post=["len(self._tasks) == 0", "fresh(self._tasks)", "fresh(self._batches)",
                    "all(not has(self._batches, b) for b in vals())", "self.active_task is None",
                    "only(self, '_batches', '_tasks', 'active_task')"],
              xpost=None, two_state=False,
              labels={("post", 0): "reset-clears-stack", ("post", 3): "reset-clears-batches", ("post", 4): "reset-clears-active-task"}))

    # ---- batch selection ------------------------------------------------------------------------------
    reg.add(C(S + "_schedule_batch", modifies=["$smem"], types={"batch": "BatchBase"},
              post=["result == (not computed(batch))",
                    "implies(computed(batch), unchanged('$smem'))",
                    "implies(not computed(batch), set_add(self._batches, batch))"],
              xpost=None,
              labels={("post", 1): "flushed-batch-not-scheduled"}))

    reg.add(C(S + "_select_batch_to_flush",
              assumes=["lt_transitive()"],
              modifies=["$smem", "$alloc"],
              types={"batch": "BatchBase", "best_batch": "BatchBase", "batches_to_remove": "list",
                     "batches_to_remove[]": "BatchBase"},
              post=["(result is None) == (not any(old(has(self._batches, b)) and eligible(b) for b in vals()))",
                    "implies(result is not None, old(has(self._batches, result)) and eligible(result))",
                    "implies(result is not None, all(implies(old(has(self._batches, b)) and eligible(b), not lt(prio(result), prio(b))) for b in vals()))",
                    "all(has(self._batches, b) == (old(has(self._batches, b)) and eligible(b)) for b in vals())",
                    "unchanged('_batches')", "only(self._batches, '$smem')"],
              xpost=None,
              invariants={
                  1: ["_it1 is self._batches",
                      "(best_batch is None) == (not any(seen(b) and eligible(b) for b in vals()))",
                      "implies(best_batch is not None, seen(best_batch) and eligible(best_batch) and best_priority is prio(best_batch))",
                      "implies(best_batch is not None, all(implies(seen(b) and eligible(b), not lt(best_priority, prio(b))) for b in vals()))",
                      "batches_to_remove is None or (exact(batches_to_remove, list) and fresh(batches_to_remove) and len(batches_to_remove) > 0)",
                      "implies(batches_to_remove is None, all(implies(seen(b), eligible(b)) for b in vals()))",
                      "implies(batches_to_remove is not None, all(seen(batches_to_remove[j]) and not eligible(batches_to_remove[j]) for j in range(0, len(batches_to_remove))))",
                      "implies(batches_to_remove is not None, all(implies(seen(b) and not eligible(b), any(batches_to_remove[j] is b for j in range(0, len(batches_to_remove)))) for b in vals()))",
                      "implies(batches_to_remove is not None, all(all(implies(i < j, batches_to_remove[i] is not batches_to_remove[j]) for i in range(0, j)) for j in range(0, len(batches_to_remove))))",
                      ],
                  2: ["_it2 is batches_to_remove", "0 <= int(_i2) and int(_i2) <= len(batches_to_remove)",
                      "only(self._batches, '$smem')",
                      "all(has(self._batches, b) == (old(has(self._batches, b)) and not any(batches_to_remove[j] is b for j in range(0, int(_i2)))) for b in vals())",
                      ],
              },
              labels={("post", 0): "none-iff-nothing-eligible", ("post", 1): "result-is-eligible",
                      ("post", 2): "result-has-greatest-priority", ("post", 3): "drops-exactly-the-ineligible"}))

    reg.add(C(S + "_flush_batch", modifies="*", types={"batch": "BatchBase"},
              requires=["not computed(batch)"],
              calls={"self.on_before_batch_flush": "env.before_flush", "self.on_after_batch_flush": "env.after_flush"},
              post=["callcount('env.before_flush') == 1", "callcount('batching.BatchBase.flush') == 1",
                    "callcount('env.after_flush') == 1",
                    "call_before('env.before_flush', 'batching.BatchBase.flush')",
                    "call_before('batching.BatchBase.flush', 'env.after_flush')"],
              xpost=["callcount('env.before_flush') == 1",
                     "implies(callcount('batching.BatchBase.flush') == 1, callcount('env.after_flush') == 1)",
                     "call_before('batching.BatchBase.flush', 'env.after_flush')"],
              labels={("xpost", 1): "after-event-even-when-flush-fails", ("post", 1): "exactly-one-flush"}))

    reg.add(C(S + "_continue_with_batch", modifies="*",
              types={"batch": "BatchBase"},
              post=["implies(result is None, callcount('scheduler.TaskScheduler._flush_batch') == 0)",
                    "implies(result is not None, callcount('scheduler.TaskScheduler._flush_batch') == 1)",
                    "(result is None) == (not any(old(has(self._batches, b)) and old(eligible(b)) for b in vals()))"],
              xpost=["callcount('scheduler.TaskScheduler._flush_batch') == 1"],
              labels={"site_requires": {"self._flush_batch": ["not has(self._batches, batch)",
                                                              "batch is not None"]},
                      ("xpost", 0): "raises-only-from-the-flush",
                      ("post", 2): "flushes-iff-something-eligible"}))

    reg.macro("sched_kept", ["s"],
              "(s._tasks is old(s._tasks) or not old(alloc(now(s._tasks)))) and "
              "implies(s._tasks is old(s._tasks), len(s._tasks) == old(len(s._tasks)) and s.active_task is old(s.active_task) "
              "and s._batches is old(s._batches) and all(s._tasks[j] is old(s._tasks[j]) for j in range(0, old(len(s._tasks)))))")
    reg.add(C(S + "wait_for", modifies="*", types={"task": "AsyncTask"}, requires=["task.running == False"],
              post=["computed(task)"],
              xpost=["raised_by('scheduler.TaskScheduler._execute') or raised_by('scheduler.TaskScheduler._continue_with_batch')",
                     "implies(raised_by('scheduler.TaskScheduler._execute'), isinstance(exc, RuntimeError))"],
              invariants={1: ["inv()", "two_state('old')"]},
              labels={"site_requires": {"self._continue_with_batch": ["not computed(task)"]},
                      ("post", 0): "returns-only-when-task-computed",
                      ("xpost", 0): "raises-only-what-the-walk-or-the-flush-raised",
                      ("xpost", 1): "only-the-runaway-guard-escapes-the-walk"}))

    TOP = "len(self._tasks) > 0 and self._tasks[len(self._tasks) - 1] is task"
    SAME = "self._tasks is old(self._tasks)"
    BELOW = "all(self._tasks[j] is old(self._tasks[j]) for j in range(0, old(len(self._tasks)) - 1))"
    D = "old(task._dependencies)"
    N0 = "old(len(self._tasks))"
    reg.add(C(S + "_handle_async_task", modifies="*", types={"task": "AsyncTask", "dependency": "FutureBase"},
              requires=["not computed(task)", TOP, "task.running == False"],
              post=[
                  # second visit of a blocked task: done with it until the next flush
                  "implies(old(blocked(task)) and old(task._dependencies_scheduled), "
                  "callcount('async_task.AsyncTask._pause_contexts') == 1 and callcount('async_task.AsyncTask._resume_contexts') == 0 "
                  "and callcount('scheduler.TaskScheduler._continue_with_task') == 0)",
                  "implies(old(blocked(task)) and old(task._dependencies_scheduled) and " + SAME + ", "
                  "len(self._tasks) == " + N0 + " - 1 and " + BELOW + ")",
                  "implies(old(blocked(task)) and old(task._dependencies_scheduled) and not computed(task), task._dependencies_scheduled == False)",
                  # first visit of a blocked task: contexts resumed, then every uncomputed dependency pushed, in list order
                  "implies(old(blocked(task)) and not old(task._dependencies_scheduled), "
                  "callcount('async_task.AsyncTask._resume_contexts') == 1 and callcount('async_task.AsyncTask._pause_contexts') == 0 "
                  "and callcount('scheduler.TaskScheduler._continue_with_task') == 0)",
                  "implies(old(blocked(task)) and not old(task._dependencies_scheduled) and " + SAME + " and not computed(task), "
                  "task._dependencies_scheduled == True and len(self._tasks) == " + N0 + " + cntu(task._dependencies, len(task._dependencies)) and "
                  "all(self._tasks[j] is old(self._tasks[j]) for j in range(0, " + N0 + ")) and "
                  "all(implies(not computed(task._dependencies[k]), self._tasks[" + N0 + " + cntu(task._dependencies, k)] is task._dependencies[k]) "
                  "for k in range(0, len(task._dependencies))))",
                  # not blocked: run it
                  "implies(not old(blocked(task)), callcount('scheduler.TaskScheduler._continue_with_task') == 1 and "
                  "callcount('async_task.AsyncTask._pause_contexts') == 0)",
                  "implies(" + SAME + ", len(self._tasks) >= " + N0 + " - 1 and " + BELOW + ")",
                  "self._tasks is old(self._tasks) or not old(alloc(now(self._tasks)))",
                  "implies(" + SAME + ", self.active_task is old(self.active_task) and self._batches is old(self._batches))",
                  "ts_sched_others(self)",
              ],
              xpost=None,
              invariants={1: [
                  "_it1 is task._dependencies", "0 <= int(_i1) and int(_i1) <= len(task._dependencies)",
                  "self._tasks is pre(self._tasks)",
                  "len(self._tasks) == pre(len(self._tasks)) + cntu(task._dependencies, int(_i1))",
                  "all(self._tasks[j] is pre(self._tasks[j]) for j in range(0, pre(len(self._tasks))))",
                  "all(implies(not computed(task._dependencies[k]), self._tasks[pre(len(self._tasks)) + cntu(task._dependencies, k)] is task._dependencies[k]) "
                  "for k in range(0, int(_i1)))",
                  "unchanged_since_pre('_value', '_dependencies', '_tasks', '$alloc')",
                  "only_pre(self._tasks, '$llen', '$litem')",
                  "all(alloc(self._tasks[j]) and isinstance(self._tasks[j], FutureBase) for j in range(pre(len(self._tasks)), len(self._tasks)))",

                  "len(task._dependencies) == pre(len(task._dependencies))",
                  "all(task._dependencies[k] is pre(task._dependencies[k]) for k in range(0, len(task._dependencies)))",
              ]},
              labels={"ts_skip": ("sched",),
                      "site_assumes_after": {
                          # the context hooks of this task do not trip the runaway-recursion guard of this scheduler
                          "task._pause_contexts": ["self._tasks is old(self._tasks)"],
                          "task._resume_contexts": ["self._tasks is old(self._tasks)"]},
                      ("post", 4): "first-visit-pushes-every-uncomputed-dependency-in-order",
                      ("post", 1): "second-visit-pops", ("post", 2): "second-visit-clears-scheduled-flag",
                      ("post", 0): "second-visit-pauses-contexts", ("post", 3): "first-visit-resumes-contexts",
                      ("post", 5): "unblocked-task-is-continued"}))

    reg.add(C(S + "_continue_with_task", modifies="*", types={"task": "AsyncTask"},
              requires=["not computed(task)", "not blocked(task)", "task.running == False"],
              post=["self.active_task is old(self.active_task)",
                    "implies(self._tasks is old(self._tasks), self._batches is old(self._batches))",
                    "computed(task) or task._dependencies_scheduled == False",
                    "callcount('async_task.AsyncTask._continue') == 1 or (computed(task) and callcount('async_task.AsyncTask._continue') == 0)",
                    "call_before('async_task.AsyncTask._resume_contexts', 'async_task.AsyncTask._continue')"],
              xpost=None,
              labels={"site_requires": {"task._continue": ["self.active_task is task", "task._contexts_active == True"]},
                      # E4: the task being stepped is not advanced re-entrantly while its body runs
                      "site_assumes_after": {"task._continue": ["task.running == old(task.running)"],
                                             "task._resume_contexts": ["self._tasks is old(self._tasks)"]},
                      ("post", 0): "active-task-restored", ("post", 3): "exactly-one-step"}))

    reg.add(C(S + "_execute", modifies="*", types={"root_task": "AsyncTask", "task": "FutureBase"},
              requires=["root_task.running == False"],
              post=["implies(self._tasks is old(self._tasks), len(self._tasks) == old(len(self._tasks)) and "
                    "all(self._tasks[j] is old(self._tasks[j]) for j in range(0, old(len(self._tasks)))))"],
              xpost=["isinstance(exc, RuntimeError)", "self._tasks is not old(self._tasks)",
                     "len(self._tasks) == 0", "self.active_task is None",
                     "all(not has(self._batches, b) for b in vals())"],
              invariants={1: [
                  "inv()", "two_state('old', 'sched')",
                  "implies(self._tasks is old(self._tasks), self.active_task is old(self.active_task) and self._batches is old(self._batches))",
                  "self._tasks is old(self._tasks) or not old(alloc(now(self._tasks)))",
                  "ts_sched_others(self)",
                  "implies(self._tasks is old(self._tasks), len(self._tasks) >= int(init_num_tasks) and "
                  "all(self._tasks[j] is old(self._tasks[j]) for j in range(0, int(init_num_tasks))))",
                  "int(init_num_tasks) == old(len(self._tasks))",
              ]},
              calls={"task._compute": "futures.FutureBase._compute!virtual", "task.batch": None},
              labels={"site_assumes": {"self._handle_async_task": ["task.running == False"]},
                      # a lazily computed future's provider does not trip the runaway-recursion guard and swallow it
                      "site_assumes_after": {"task._compute": ["self._tasks is old(self._tasks)"],
                                             "task.set_error": ["self._tasks is old(self._tasks)"]},
                      ("post", 0): "stack-restored-to-entry-height",
                      ("xpost", 0): "only-the-runaway-guard-escapes", ("xpost", 2): "guard-leaves-no-task",
                      ("xpost", 3): "guard-clears-active-task", ("xpost", 4): "guard-clears-batches"}))

    # ---- module-level accessors ----------------------------------------------------------------------------
    reg.add(C("scheduler.get_scheduler!body", params=[], modifies=[], post=[], xpost=None, trusted=True))
