"""Property-level driver: decide one property from the obligations of the
functions it rests on, write evidence, replay failures, print VIOLATION lines.

exit 0  every obligation discharged (known findings printed as KNOWN-FINDING)
exit 1  a baseline obligation failed (solver returned a counter-model): VIOLATION
exit 2  undecided (unknown / unsupported construct / obligation that never passed)
exit 3  checker crash
"""
import hashlib
import json
import os
import subprocess
import sys
import time
import traceback

HERE = os.path.dirname(os.path.dirname(os.path.abspath(__file__)))
REPO = os.environ.get("ASYNQ_VERIF_REPO", "/repo")
# dev only: seeded sweeps on scratch copies write their evidence/replay files elsewhere
OUT = os.environ.get("ASYNQ_VERIF_OUT") or None


def load_known():
    out = {"finding": [], "fixed": []}
    p = os.path.join(HERE, "KNOWN_FINDINGS.txt")
    if os.path.exists(p):
        for line in open(p):
            line = line.strip()
            if not line or line.startswith("#"):
                continue
            kind, _, rest = line.partition(":")
            kind = kind.strip()
            if kind not in out:
                continue
            kv = {}
            toks = rest.strip().split(" ")
            txt = []
            for t in toks:
                if "=" in t and t.split("=")[0] in ("property", "obligation", "path"):
                    k, v = t.split("=", 1)
                    kv[k] = v
                else:
                    txt.append(t)
            kv["text"] = " ".join(txt)
            out[kind].append(kv)
    return out


def load_baseline():
    p = os.path.join(HERE, "baseline", "obligations.json")
    if os.path.exists(p):
        return json.load(open(p))
    return {}


def aggregate(results):
    """function results -> {obligation name: {'status', 'instances', 'seconds', 'backends', 'fail': [instances]}}"""
    agg = {}
    for r in results:
        for o in r["obligations"]:
            a = agg.setdefault(o["name"], {"status": "discharged", "instances": 0, "seconds": 0.0,
                                           "backends": set(), "fail": [], "unknown": [], "function": r["function"],
                                           "kind": o["kind"]})
            a["instances"] += 1
            a["seconds"] += o["seconds"]
            if o["backend"]:
                a["backends"].add(o["backend"])
            if o["status"] == "failed":
                a["fail"].append(o)
                a["status"] = "failed"
            elif o["status"] != "discharged":
                a["unknown"].append(o)
                if a["status"] != "failed":
                    a["status"] = "unknown"
    return agg


def run_property(pid, tier="quick", seed=0, replay_only=None):
    t0 = time.time()
    sys.path.insert(0, HERE)
    from pyvc import verify
    import props
    P = props.PROPERTIES[pid]
    timeout = 10 if tier == "quick" else 60
    both = tier == "thorough"
    quals = list(P["functions"])
    results = verify.verify_many(quals, timeout=timeout, both=both, root=REPO)
    repo, reg, eng = verify.setup(REPO)
    # property-level lemmas over the contracts
    lemma_res = []
    for lem in P.get("lemmas", []):
        lemma_res.append(props.run_lemma(lem, eng, timeout))
    if lemma_res:
        results.append({"function": "lemma", "obligations": lemma_res, "undecided": None, "seconds": 0})
    # structural (AST-level) obligations
    struct = []
    for sname in P.get("structural", []):
        struct.append(props.run_structural(sname, repo, reg, eng))
    if struct:
        results.append({"function": "structural", "obligations": struct, "undecided": None, "seconds": 0})
    agg = aggregate(results)
    baseline = load_baseline()
    known = load_known()
    base_set = set(baseline.get("obligations", []))
    undecided = [(r["function"], r["undecided"]) for r in results if r.get("undecided")]
    crashes = [r for r in results if r.get("crash")]
    violations, known_hits, never_passed = [], [], []
    for name, a in sorted(agg.items()):
        if a["status"] != "failed":
            continue
        kf = [k for k in known["finding"] if k.get("property") == pid and k.get("obligation") == name]
        inst_unlisted = []
        for inst in a["fail"]:
            tr = " ".join(inst.get("trace", []))
            if kf and all((k.get("path") is None or k["path"] in tr.replace(" ", "_")) for k in kf[:1]) and any(
                    (k.get("path") is None or k["path"] in tr.replace(" ", "_")) for k in kf):
                known_hits.append((name, kf[0], inst))
            else:
                inst_unlisted.append(inst)
        if not inst_unlisted:
            continue
        if name in base_set or not base_set:
            violations.append((name, a, inst_unlisted))
        else:
            never_passed.append((name, a))
    unknowns = [(n, a) for n, a in sorted(agg.items()) if a["status"] == "unknown"]
    base_undecided = set(baseline.get("not_discharged_at_baseline", []))
    expected_unknown = [(n, a) for n, a in unknowns if n in base_undecided]
    unknowns = [(n, a) for n, a in unknowns if n not in base_undecided]

    # bounded stand-ins (labelled, never counted as proved)
    standins = []
    for sb in P.get("bounded", []):
        if tier == "thorough" or sb.get("quick"):
            standins.append(props.run_bounded(sb, pid, tier, seed))

    # mutation self-test of the contracts (thorough tier only)
    selftest = None
    if tier == "thorough":
        from pyvc import selftest as _st
        try:
            selftest = _st.run(set(quals), timeout=20, root=REPO)
        except Exception:
            selftest = {"error": traceback.format_exc()[-600:]}

    # replay
    out_lines = []
    rdir = os.path.join(OUT or HERE, "replay_out", pid)
    os.makedirs(rdir, exist_ok=True)
    viol_count = 0
    replay_cache = {}

    def do_replay(name, fn, inst):
        if fn not in replay_cache:
            try:
                replay_cache[fn] = props.replay(pid, name, fn, inst)
            except Exception:
                replay_cache[fn] = {"replayed": False, "error": traceback.format_exc()[-800:]}
        return replay_cache[fn]

    # an obligation that was discharged on the pinned tree and is now undecided by the solver: the replay
    # scenarios for its function are run on the real code; only a concrete failing input makes it a violation
    still_unknown = []
    for name, a in unknowns:
        if name not in base_set:
            still_unknown.append((name, a))
            continue
        inst = a["unknown"][0]
        rr = do_replay(name, a["function"], inst)
        if rr and rr.get("replayed"):
            rp = os.path.join(rdir, name.replace("/", "_").replace("#", "__").replace(":", "_") + ".json")
            rec = {"property": pid, "obligation": name, "function": a["function"], "solver": inst.get("backend"),
                   "solver_output": "obligation discharged on the pinned tree is no longer discharged (%s); "
                                    "confirmed by a concrete failing input on the real code" % (inst.get("reason") or "unknown"),
                   "path": inst.get("trace"), "lineno": inst.get("lineno")}
            rec.update(rr)
            json.dump(rec, open(rp, "w"), indent=1, default=str)
            out_lines.append("VIOLATION property=%s replay=%s" % (pid, rp))
            viol_count += 1
        else:
            still_unknown.append((name, a))
    unknowns = still_unknown
    for name, a, insts in violations:
        inst = insts[0]
        rp = os.path.join(rdir, name.replace("/", "_").replace("#", "__").replace(":", "_") + ".json")
        rec = {"property": pid, "obligation": name, "function": a["function"], "solver": inst.get("backend"),
               "solver_output": inst.get("reason"), "path": inst.get("trace"), "model": inst.get("model"),
               "model_text": inst.get("model_text", "")[:4000], "lineno": inst.get("lineno"),
               "replayed": False}
        rr = do_replay(name, a["function"], inst)
        rec.update(rr or {})
        json.dump(rec, open(rp, "w"), indent=1, default=str)
        tail = "" if rec.get("replayed") else " no-failing-input-found"
        out_lines.append("VIOLATION property=%s replay=%s%s" % (pid, rp, tail))
        viol_count += 1
    for sb in standins:
        for v in sb.get("violations", []):
            if any(k.get("property") == pid and k.get("obligation") == v.get("name") for k in known["finding"]):
                known_hits.append((v.get("name"), {"text": v.get("what", "")}, v))
                continue
            rp = os.path.join(rdir, "bounded_" + v["name"].replace("/", "_").replace(":", "_") + ".json")
            json.dump(v, open(rp, "w"), indent=1, default=str)
            out_lines.append("VIOLATION property=%s replay=%s" % (pid, rp))
            viol_count += 1
    seen_k = set()
    for name, k, inst in known_hits:
        if name in seen_k:
            continue
        seen_k.add(name)
        out_lines.append("KNOWN-FINDING: property=%s %s (%s)" % (pid, k.get("text", ""), name))

    # evidence
    exp_names = {n for n, _a in expected_unknown}
    n_obl = len([a for n, a in agg.items() if a["kind"] != "cover" and n not in exp_names])
    n_dis = len([a for n, a in agg.items() if a["status"] == "discharged" and a["kind"] != "cover" and n not in exp_names])
    n_cover = len([a for a in agg.values() if a["kind"] == "cover"])
    solver_s = sum(a["seconds"] for a in agg.values())
    backends = {}
    for a in agg.values():
        for b in a["backends"]:
            backends[b] = backends.get(b, 0) + 1
    samples = []
    for name, a in list(sorted(agg.items()))[:6]:
        samples.append({"obligation": name, "status": a["status"], "path_instances": a["instances"],
                        "solver_s": round(a["seconds"], 3), "backends": sorted(a["backends"])})
    mods = sorted({q.split(".")[0] for q in quals})
    hashes = {m: repo.modules[m].sha256 for m in mods if m in repo.modules}
    assumptions = list(props.COMMON_ASSUMPTIONS) + list(P.get("assumptions", []))
    trusted = []
    for q in quals:
        pass
    applied = set()
    for r in results:
        applied.update(r.get("callees") or ())
    # contracts applied at some call site of the functions of this property and not themselves
    # discharged here: trusted/environment contracts, and contracts of real functions proved under
    # another property (or nowhere: then they are assumptions of this result)
    used_trusted = sorted(n for n in applied if n in reg.contracts and reg.contracts[n].trusted)
    import props as _props
    proved_anywhere = set()
    for _p in _props.PROPERTIES.values():
        proved_anywhere.update(_p.get("functions", ()))
    assumed_unproved = sorted(n for n in applied if n in reg.contracts and not reg.contracts[n].trusted
                              and n not in proved_anywhere and n.split("!")[0] not in proved_anywhere)
    # every clause that is assumed rather than proved in the contracts of this property's functions, mechanically collected:
    # `assumes` (entry hypotheses not checked at call sites) and site assumptions (before / after a call)
    assumed_clauses = []
    for q in quals:
        c = reg.contracts.get(q)
        if c is None:
            continue
        for cl in getattr(c, "assumes", ()) or ():
            assumed_clauses.append({"function": q, "kind": "assumes (entry)", "clause": cl})
        for kind in ("site_assumes", "site_assumes_after"):
            for callee, cls_ in (c.labels.get(kind) or {}).items():
                for cl in cls_:
                    assumed_clauses.append({"function": q, "kind": "%s %s" % ("before call of" if kind == "site_assumes" else "after call of", callee),
                                            "clause": cl})
    ev = {
        "property_id": pid, "tier": tier, "seed": int(seed), "level": "proof",
        "coverage": {
            "obligations": n_obl, "discharged": n_dis,
            "checker_cmd": "python3-vt -m pyvc.check %s --tier %s  (z3 %s via python API; cvc5 on z3-unknowns%s)" % (
                pid, tier, _z3v(), "; every query on both back ends" if both else ""),
            "trusted_base": ["pyvc VC generator (lowering, symbolic executor, theory encoding)", "z3 5.1 / cvc5",
                             "trusted/environment contracts applied at call sites: " + (", ".join(used_trusted) or "none")] +
                            (["contracts of real functions applied but discharged under no property (assumed): " + ", ".join(assumed_unproved)]
                             if assumed_unproved else []),
            "functions_under_contract": quals,
            "source_sha256": hashes,
            "path_instances": sum(a["instances"] for a in agg.values()),
            "vacuity_covers": n_cover,
            "backends": backends, "solver_seconds": round(solver_s, 2),
            "undecided": [{"function": f, "reason": r[:300]} for f, r in undecided] +
                         [{"obligation": n, "reason": (a["unknown"][0].get("reason") or "")[:200]} for n, a in unknowns],
            "failed": [n for n, _a, _i in violations], "known_findings": sorted(seen_k),
            "never_passed": [n for n, _ in never_passed],
            "undecided_at_baseline_not_counted": sorted(exp_names),
            "samples": samples,
            "bounded_standins": [{k: v for k, v in sb.items() if k != "violations"} for sb in standins],
            "mutation_selftest": selftest,
            "assumed_clauses": assumed_clauses,
            "not_proved_clauses": P.get("not_proved", []),
            "explanation": P.get("explanation", ""),
        },
        "assumptions": assumptions,
        "wall_s": round(time.time() - t0, 2),
        "violations": viol_count,
    }
    os.makedirs(os.path.join(OUT or HERE, "evidence"), exist_ok=True)
    json.dump(ev, open(os.path.join(OUT or HERE, "evidence", pid + ".json"), "w"), indent=1, default=str)

    print("%s [%s]: %d/%d obligations discharged (%d path instances, %d functions, %.1fs solver, %.1fs wall)" % (
        pid, tier, n_dis, n_obl, ev["coverage"]["path_instances"], len(quals), solver_s, ev["wall_s"]))
    for l in out_lines:
        print(l)
    if selftest and selftest.get("missed"):
        for m_ in selftest["missed"]:
            print("SELFTEST-WEAK: a deliberate body edit still verifies: " + m_)
    if crashes:
        for r in crashes:
            print("CHECKER-ERROR %s: %s" % (r["function"], r["undecided"][-400:]))
        return 3 if not viol_count else 1
    if viol_count:
        return 1
    rc = 0
    for f, r in undecided:
        print("UNDECIDED %s: %s" % (f, r[:300]))
        rc = 2
    for n, a in unknowns:
        print("UNDECIDED obligation %s: %s" % (n, (a["unknown"][0].get("reason") or "")[:120]))
        rc = 2
    for n, a in never_passed:
        print("UNDECIDED obligation %s fails but is not in baseline/obligations.json (never passed)" % n)
        rc = 2
    if n_obl == 0:
        print("UNDECIDED: zero obligations generated")
        rc = 2
    return rc


def _z3v():
    import z3
    return z3.get_version_string()


def _quiet_stderr():
    """z3 prints 'if cannot be used in patterns' warnings at C level (the engine retries without patterns): keep
    them out of the check's output."""
    import atexit
    import tempfile
    try:
        tmp = tempfile.TemporaryFile(mode="w+b")
        saved = os.dup(2)
        os.dup2(tmp.fileno(), 2)

        def restore():
            try:
                sys.stderr.flush()
                os.dup2(saved, 2)
                tmp.seek(0)
                for line in tmp.read().decode("utf-8", "replace").splitlines():
                    if "cannot be used in patterns" not in line and line.strip():
                        sys.stderr.write(line + "\n")
            except Exception:
                pass
        atexit.register(restore)
    except Exception:
        pass


def main(argv):
    _quiet_stderr()
    pid = argv[0]
    tier = os.environ.get("VERIF_TIER", "quick")
    seed = int(os.environ.get("VERIF_SEED", "0") or 0)
    replay = None
    i = 1
    while i < len(argv):
        if argv[i] == "--tier":
            tier = argv[i + 1]
            i += 2
        elif argv[i] == "--replay":
            replay = argv[i + 1]
            i += 2
        else:
            i += 1
    if replay:
        sys.path.insert(0, HERE)
        import props
        rec = json.load(open(replay))
        if "function" in rec:
            out = props.replay(rec.get("property", pid), rec.get("obligation", ""), rec["function"], rec)
        else:
            # record written by a bounded stand-in: {"name": "bounded:scenario:<scenario>", "what": ..., <failing input>}
            inst = dict(rec)
            inst["scenario"] = str(rec.get("name", "")).split(":")[-1]
            out = props.replay(pid, rec.get("name", ""), "", inst)
        print(json.dumps(out, indent=1, default=str))
        # exit 1 when the failure reproduces on the current tree, 0 when it does not
        return 1 if out.get("replayed") else 0
    try:
        return run_property(pid, tier, seed)
    except Exception:
        traceback.print_exc()
        return 3


if __name__ == "__main__":
    sys.exit(main(sys.argv[1:]))
