#!/bin/sh
cd /verif
M="python3 tools/mutcheck.py batching.py"
F='grep -E "discharged in|failed|unknown|UNDEC"'
echo "== 1 switch after flush"; $M '        self._try_switch_active_batch()
        try:
            self._flush()' '        try:
            self._flush()
            self._try_switch_active_batch()' batching.BatchBase._compute | grep -E "discharged in|failed|unknown|UNDEC" | head -4
echo "== 2 except Exception"; $M '        except BaseException as error:
            if not self.is_computed():' '        except Exception as error:
            if not self.is_computed():' batching.BatchBase._compute | grep -E "discharged in|failed|unknown|UNDEC" | head -4
echo "== 3 announce before items"; $M '        error = self.error()
        cancelled = error is not None' '        futures.FutureBase._computed(self)
        error = self.error()
        cancelled = error is not None' batching.BatchBase._computed | grep -E "discharged in|failed|unknown|UNDEC" | head -4
echo "== 4 leave unset items"; $M '            if not item.is_computed():
                # We must' '            if cancelled and not item.is_computed():
                # We must' batching.BatchBase._computed | grep -E "discharged in|failed|unknown|UNDEC" | head -4
echo "== 5 flush w/o guard"; $M '        if self.is_computed():
            raise BatchingError("Batch is already flushed or cancelled.")' '        pass' batching.BatchBase.flush | grep -E "discharged in|failed|unknown|UNDEC" | head -4
echo "== 6 cancel w/o guard"; $M '        if self.is_computed():
            return  # Cancel must never raise an error' '        pass' batching.BatchBase.cancel | grep -E "discharged in|failed|unknown|UNDEC" | head -4
echo "== 7 item ctor w/o assert"; $M '        assert (
            not batch.is_flushed()
        ), "can'"'"'t add an item to the batch that is already flushed"' '        pass' batching.BatchItemBase.__init__ | grep -E "discharged in|failed|unknown|UNDEC" | head -4
echo "== 8 item _compute inverted"; $M '        if not self.batch.is_flushed():
            self.batch.flush()' '        if self.batch.is_flushed():
            self.batch.flush()' batching.BatchItemBase._compute | grep -E "discharged in|failed|unknown|UNDEC" | head -4
echo "== 9 priority"; $M 'return 0, len(self.items)' 'return 0, 0' batching.BatchBase.get_priority | grep -E "discharged in|failed|unknown|UNDEC" | head -4
echo "== 10 clear before compute"; $M '            self.error()  # Makes future to compute w/o raising an error
            if not _debug.options.KEEP_DEPENDENCIES:
                self.items.clear()' '            if not _debug.options.KEEP_DEPENDENCIES:
                self.items.clear()
            self.error()' batching.BatchBase.flush | grep -E "discharged in|failed|unknown|UNDEC" | head -4
