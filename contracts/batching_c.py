"""Contracts for asynq/batching.py (C11, shared by C05/C02)."""
from pyvc.contract import Contract as C
from .futures_c import FRESH, NOTIF, FROZEN, KEEP

OTHERS_BODY = ("all(implies(old(alloc(f)) and f is not self and not computed(f), "
               "f.$n_flush_body == old(f.$n_flush_body)) for f in objs(BatchBase))")
# a constructor's self is new: nothing refers to it yet (established by allocation, see exprs.alloc)
NEW_BATCH = ["all(x.batch is not self for x in objs(BatchItemBase))"]
NEW_ITEM = ["all(all(b.items[j] is not self for j in range(0, len(b.items))) for b in objs(BatchBase))"]
FUT_FIELDS = ["_value", "_error", "_in_repr", "on_computed"]


def register(reg, repo):
    reg.elem_types[("BatchBase", "items")] = "BatchItemBase"
    reg.field_types[("BatchItemBase", "batch")] = "BatchBase"

    # ---- user-overridable hooks (environment contracts; every clause is an assumption on user code) ----
    reg.add(C("batching.BatchBase._flush!virtual", params=["self"], kind="method", modifies="*", trusted=True,
              requires=["self.$b_switched", "not computed(self)"],
              post=["self.$n_flush_body == old(self.$n_flush_body) + 1", OTHERS_BODY],
              xpost=["self.$n_flush_body == old(self.$n_flush_body) + 1", OTHERS_BODY],
              labels={"ts_skip": ("flushbody",)},
              note="user flush body: arbitrary code under E1/E2 (may set any subset of items, raise anything, "
                   "create items); ghost $n_flush_body counts executions; requires that the batch is no "
                   "longer the active batch ($b_switched)"))
    reg.add(C("batching.BatchBase._cancel!virtual", params=["self"], kind="method", modifies="*", trusted=True,
              requires=["computed(self)"], post=[], xpost=None,
              note="user cancellation hook; documented as optional; assumed not to raise"))
    reg.add(C("batching.BatchBase._try_switch_active_batch!virtual", params=["self"], kind="method",
              modifies="*", trusted=True, post=["self.$b_switched", "computed(self) == old(computed(self))"], xpost=None,
              note="user hook 'must never throw an error' (docstring); ghost $b_switched: self is not the active batch afterwards"))
    reg.add(C("batching.BatchBase.get_priority!virtual", params=["self"], kind="method", modifies=[], trusted=True,
              post=["result is prio(self)"], xpost=None,
              note="user-overridable priority: assumed pure and deterministic while the scheduler selects"))

    reg.add(C("batching.BatchBase.dump", modifies=[], post=[], xpost=None, trusted=True,
              note="diagnostic (body checked under C18)"))
    reg.add(C("profiler.incr_counter", modifies=["counter"], post=[], xpost=None, returns_type="int", trusted=True))
    reg.add(C("profiler.append", modifies=["stats_log"], post=[], xpost=None, trusted=True))

    # ---- BatchBase -----------------------------------------------------------------------------------
    reg.add(C("batching.BatchBase.__init__", requires=FRESH + NEW_BATCH,
              modifies=FUT_FIELDS + ["items", "$alloc"],
              post=["self._value is _none", "self._error is None", "len(self.items) == 0", "fresh(self.items)",
                    "only(self, '_value', '_error', '_in_repr', 'on_computed', 'items')"],
              xpost=None, two_state=False))
    reg.add(C("batching.BatchBase.is_flushed", modifies=[], post=["result == computed(self)"], xpost=None,
              returns_type="bool"))
    reg.add(C("batching.BatchBase.is_cancelled", modifies=[],
              post=["result == (computed(self) and self._error is not None)"], xpost=None, returns_type="bool"))
    reg.add(C("batching.BatchBase.is_empty", modifies=[], post=["result == (len(self.items) == 0)"], xpost=None,
              returns_type="bool"))
    reg.add(C("batching.BatchBase.get_priority", modifies=[],
              post=["tlen(result) == 2", "titem(result, 0) == 0", "titem(result, 1) == len(self.items)"],
              xpost=None, returns_type="tuple",
              labels={("post", 2): "default-priority-counts-items"}))

    reg.add(C("batching.BatchBase.flush", modifies="*",
              post=["not old(computed(self))", "computed(self)", "self.$n_notified >= 1",
                    "self.$n_flush_body == old(self.$n_flush_body) + 1",
                    "implies(not opt('KEEP_DEPENDENCIES'), len(self.items) == 0)"],
              xpost=["old(computed(self))", "isinstance(exc, BatchingError)", "no_callout()"],
              labels={("post", 3): "flush-body-once", ("xpost", 0): "never-raises-when-pending",
                      ("xpost", 1): "second-flush-BatchingError", ("xpost", 2): "second-flush-no-effect"}))

    reg.add(C("batching.BatchBase.cancel", modifies="*",
              post=["computed(self)", "implies(old(computed(self)), no_callout())",
                    "implies(not old(computed(self)), self._error is not None)",
                    "implies(not old(computed(self)) and error is not None, self._error is error)",
                    "implies(not old(computed(self)) and error is None, isinstance(self._error, BatchCancelledError))",
                    "implies(not old(computed(self)), self.$n_flush_body == old(self.$n_flush_body))"],
              xpost=None,
              labels={("post", 1): "noop-when-finished", ("post", 5): "cancel-does-not-run-body"}))

    reg.add(C("batching.BatchBase._compute", modifies="*",
              requires=["not computed(self)"],
              post=["computed(self)", "self.$n_notified >= 1",
                    "self.$n_flush_body == old(self.$n_flush_body) + 1"],
              xpost=None,
              labels={("post", 2): "flush-body-once"},
              note="refines FutureBase._compute!virtual for batches: never raises"))

    reg.add(C("batching.BatchBase._computed", modifies="*",
              requires=["computed(self)", "self.$n_notified == 0"],
              post=[NOTIF, FROZEN, "items_done(self)"], xpost=None,
              invariants={1: ["computed(self)", "self.$n_notified == 0",
                              "self.items is pre(self.items)",
                              "len(self.items) == pre(len(self.items))",
                              "_it1 is self.items",
                              "all(computed(self.items[j]) for j in range(0, _i1))",
                              "two_state('pre')", "inv()",
                              "all(implies(old(alloc(f)) and old(computed(f)) and f is not self, f.$n_notified == old(f.$n_notified)) for f in objs(FutureBase))",
                              ]},
              labels={"ts_skip": ("notif",), ("post", 2): "all-items-complete-before-announcement"},
              types={"item": "BatchItemBase"}))

    # ---- BatchItemBase ---------------------------------------------------------------------------------
    reg.add(C("batching.BatchItemBase.__init__", requires=FRESH + ["self.$n_notified == 0", "self.batch is None"] + NEW_ITEM,
              types={"batch": "BatchBase"},
              modifies=FUT_FIELDS + ["batch", "index", "_total_time", "_id", "counter", "$alloc", "$llen", "$litem"],
              post=["not old(computed(batch))", "self.batch is batch", "self._value is _none", "self._error is None",
                    "int(self.index) == old(len(batch.items))",
                    "len(batch.items) == old(len(batch.items)) + 1",
                    "batch.items[old(len(batch.items))] is self",
                    "all(batch.items[j] is old(batch.items[j]) for j in range(0, old(len(batch.items))))",
                    "only(self, '_value', '_error', '_in_repr', 'on_computed', 'batch', 'index', '_total_time', '_id')",
                    "only(batch.items, '$llen', '$litem')"],
              xpost=["old(computed(batch))", "isinstance(exc, AssertionError)", "unchanged('$llen', '$litem')"],
              two_state=False,
              labels={("xpost", 0): "no-item-added-to-finished-batch"}))

    reg.add(C("batching.BatchItemBase._compute", modifies="*",
              requires=["not computed(self)", "not in_window(self)"],
              post=["computed(self)"], xpost=None,
              labels={("post", 0): "item-value-flushes-its-batch"}))
