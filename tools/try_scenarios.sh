#!/bin/sh
# dev helper: run scenario functions of one replay module on a scratch copy of /repo/asynq (HEAD working tree), optionally patched
# usage: tools/try_scenarios.sh <module> <patch.diff|-> [property id] [scenario...]
mod=$1; patch=$2; pid=${3:-C01}; shift 3 2>/dev/null
t=$(mktemp -d /tmp/sc_try_XXXXXX)
mkdir $t/asynq; cp /repo/asynq/*.py $t/asynq/
if [ "$patch" != "-" ]; then (cd $t && patch -s -p1 < $patch) || { echo "patch failed"; rm -rf $t; exit 2; }; fi
cd $t && PYTHONPATH=$t:/tmp/scdev:/verif/replay /venv/bin/python - "$mod" "$pid" "$@" <<'PY'
import sys, importlib, time, json, traceback
import scenarios
m = importlib.import_module(sys.argv[1])
pid = sys.argv[2]
names = sys.argv[3:] or [f.__name__ for fns, ps, f in scenarios.REG if f.__module__ == m.__name__]
for n in names:
    f = getattr(m, n)
    t0 = time.time()
    try:
        r = f({"property": pid})
    except BaseException:
        r = {"what": "CRASH", "tb": traceback.format_exc()[-900:]}
    print(n, "OK" if not r else "FAIL " + json.dumps(r, default=str)[:700], round(time.time() - t0, 2))
PY
cd /; rm -rf $t
