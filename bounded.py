"""Bounded stand-ins (labelled bounded; never counted as proved).  Each runs natively on a scratch
pure-Python copy of the working tree under /venv/bin/python and reports its bound and counts."""
import json
import os
import shutil
import subprocess
import time

HERE = os.path.dirname(os.path.abspath(__file__))


def run(sb, pid, tier, seed):
    import props
    name = sb["name"]
    t0 = time.time()
    d = props.scratch_copy()
    try:
        env = dict(os.environ, PYTHONPATH=d, PYTHONDONTWRITEBYTECODE="1", VERIF_SEED=str(seed), VERIF_TIER=tier)
        script = [os.path.join(HERE, "bounded_impl", name + ".py")]
        if name == "scenarios":
            script = [os.path.join(HERE, "replay", "battery.py"), pid]
        p = subprocess.run(["/venv/bin/python"] + script,
                           capture_output=True, text=True, env=env, cwd=d, timeout=1500)
        try:
            out = json.loads(p.stdout.strip().splitlines()[-1])
        except Exception:
            out = {"name": name, "bound": "?", "cases": 0, "violations": [],
                   "error": (p.stdout[-300:] + p.stderr[-800:])}
        out.setdefault("name", name)
        out["label"] = "bounded stand-in (not proved)"
        out["wall_s"] = round(time.time() - t0, 2)
        return out
    finally:
        shutil.rmtree(d, ignore_errors=True)
