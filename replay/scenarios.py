"""Replay scenarios: small concrete programs against the REAL code (scratch
pure-Python copy of the working tree) with an oracle taken from the property
statement.  Each returns None when the real code behaves as the contract
says, or a dict describing the failing input and observation.

A scenario is selected when the failed obligation belongs to one of the
functions it is registered for (or, failing that, to its property)."""
import functools

REG = []   # (function prefixes, properties, callable)


def scenario(functions=(), props=()):
    def deco(f):
        REG.append((tuple(functions), tuple(props), f))
        return f
    return deco


def select(fn, pid):
    first = [f for fns, ps, f in REG if any(fn.startswith(x) for x in fns)]
    second = [f for fns, ps, f in REG if pid in ps and f not in first]
    return first + second


def fail(what, **kw):
    d = {"what": what}
    d.update(kw)
    return d


# ---------------------------------------------------------------------------
# futures (C10)

class _Log:
    def __init__(self):
        self.events = []


@scenario(["futures.FutureBase.set_value", "futures.FutureBase.set_error", "futures.FutureBase.is_computed",
           "futures.FutureBase._computed", "futures.FutureBase.reset_unsafe"], ["C10"])
def fut_set_once(req):
    """set_value/set_error twice: second raises FutureIsAlreadyComputed and changes nothing; subscribers notified once, after the outcome is visible."""
    from asynq import futures
    for first in ("value", "error"):
        for second in ("value", "error"):
            f = futures.Future(lambda: 1)
            seen = []
            f.on_computed.subscribe(lambda fut: seen.append((fut.is_computed(), fut._value, fut._error)))

            def boom(fut):
                raise ValueError("subscriber")
            f.on_computed.subscribe(boom)
            f.on_computed.subscribe(lambda fut: seen.append("third"))
            e1 = KeyError("e1")
            import io, contextlib
            buf = io.StringIO()
            with contextlib.redirect_stdout(buf), contextlib.redirect_stderr(buf):
                if first == "value":
                    f.set_value(41)
                else:
                    f.set_error(e1)
            if not f.is_computed():
                return fail("not computed after set_" + first, first=first)
            want = (True, 41, None) if first == "value" else (True, None, e1)
            if seen != [want, "third"]:
                return fail("subscribers not notified exactly once after the outcome is visible", first=first, seen=repr(seen))
            try:
                if second == "value":
                    f.set_value(42)
                else:
                    f.set_error(KeyError("e2"))
                return fail("second set_%s did not raise" % second, first=first, second=second)
            except futures.FutureIsAlreadyComputed:
                pass
            got = (f._value, f._error)
            if got != want[1:]:
                return fail("second set changed the outcome", first=first, second=second, got=repr(got))
            if len(seen) != 2:
                return fail("second set notified subscribers", seen=repr(seen))
    return None


@scenario(["futures.FutureBase.value", "futures.FutureBase.error", "futures.FutureBase.__call__",
           "futures.Future._compute", "futures.FutureBase.raise_if_error", "futures.Future.__init__"], ["C10"])
def fut_value_consistent(req):
    """value()/error()/__call__ on providers that return or raise: one computation, one consistent outcome."""
    from asynq import futures
    calls = []

    def good():
        calls.append(1)
        return "v"
    f = futures.Future(good)
    if f.is_computed():
        return fail("fresh Future is computed")
    got = [f.value(), f(), f.value(), f.error()]
    if got != ["v", "v", "v", None] or len(calls) != 1:
        return fail("value/call/error disagree or provider ran more than once", got=repr(got), calls=len(calls))
    calls2 = []
    err = ZeroDivisionError("z")

    def bad():
        calls2.append(1)
        raise err
    g = futures.Future(bad)
    for i in range(3):
        try:
            g.value() if i != 1 else g()
            return fail("failing provider: value() returned", attempt=i)
        except ZeroDivisionError as e:
            if e is not err:
                return fail("different exception instance", attempt=i)
    if g.error() is not err or len(calls2) != 1:
        return fail("error() inconsistent or provider re-run on stored error", calls=len(calls2), error=repr(g.error()))
    h = futures.Future(bad)
    calls2[:] = []
    try:
        h.error()      # Future._compute re-raises the provider's Exception after storing it
    except ZeroDivisionError:
        pass
    if h.error() is not err or not h.is_computed() or len(calls2) != 1:
        return fail("error() on a failing future", error=repr(h._error), calls=len(calls2))
    return None


@scenario(["futures.ConstFuture.__init__", "futures.ErrorFuture.__init__", "futures.FutureBase.__init__"], ["C10"])
def fut_const(req):
    """ConstFuture / ErrorFuture are complete from construction."""
    from asynq import futures
    c = futures.ConstFuture(5)
    if not c.is_computed() or c.value() != 5 or c.error() is not None:
        return fail("ConstFuture not complete", value=repr(c._value))
    e = RuntimeError("x")
    ef = futures.ErrorFuture(e)
    if not ef.is_computed() or ef.error() is not e:
        return fail("ErrorFuture not complete")
    try:
        ef.value()
        return fail("ErrorFuture.value() returned")
    except RuntimeError as x:
        if x is not e:
            return fail("ErrorFuture raised another instance")
    for fut in (c, ef):
        try:
            fut.set_value(1)
            return fail("set_value on a constant future did not raise")
        except futures.FutureIsAlreadyComputed:
            pass
    p = futures.Future(lambda: 1)
    if p.is_computed() or p._error is not None:
        return fail("fresh future not pending")
    return None


@scenario(["async_task.AsyncTask._computed", "async_task.AsyncTask._queue_exit", "async_task.AsyncTask._queue_throw_error",
           "async_task.AsyncTask._accept_error"], ["C10"])
def task_completion_notifies(req):
    """An AsyncTask completed by return, by exception, by result(), or from outside (set_error while suspended, also inside a try/finally whose cleanup raises): outcome set once, every subscriber notified exactly once after the outcome is visible, a second set raises FutureIsAlreadyComputed."""
    import io, contextlib
    from asynq import asynq as A, batching, futures, result, scheduler
    scheduler.reset()

    @A()
    def ok():
        yield batching.DebugBatchItem("k", 1)
        return 5

    @A()
    def via_result():
        yield batching.DebugBatchItem("k", 1)
        result(6)
        return

    @A()
    def boom():
        yield batching.DebugBatchItem("k", 1)
        raise KeyError("x")

    @A()
    def cleanup_raises():
        try:
            yield batching.DebugBatchItem("held", 1)
        finally:
            raise RuntimeError("cleanup failed")
    for mk, kind in ((ok, "value"), (via_result, "value"), (boom, "error"), (cleanup_raises, "external"), (ok, "external")):
        scheduler.reset()
        t = mk.asynq()
        seen = []
        t.on_computed.subscribe(lambda f: seen.append((f.is_computed(), f._value, f._error)))
        t.on_computed.subscribe(lambda f: (_ for _ in ()).throw(ValueError("subscriber")))
        t.on_computed.subscribe(lambda f: seen.append("last"))
        buf = io.StringIO()
        ext = KeyError("cancelled")
        with contextlib.redirect_stdout(buf), contextlib.redirect_stderr(buf):
            if kind == "external":
                if mk is cleanup_raises:
                    # start it so that it is suspended inside the try block
                    s = scheduler.get_scheduler()
                    s._execute(t)
                try:
                    t.set_error(ext)
                except RuntimeError:
                    pass      # the failing cleanup may surface here; the notification must still have happened
            else:
                try:
                    t.value()
                except KeyError:
                    pass
        if not t.is_computed():
            return fail("task not computed", program=mk.fn.__name__, how=kind)
        if len(seen) != 2 or seen[1] != "last" or seen[0][0] is not True:
            return fail("subscribers of a task must be notified exactly once, after the outcome is visible, even if one of them raises",
                        program=mk.fn.__name__, how=kind, seen=repr(seen))
        if kind == "external" and t.error() is not ext:
            return fail("externally set error lost", program=mk.fn.__name__)
        try:
            t.set_value(1)
            return fail("second completion did not raise", program=mk.fn.__name__)
        except futures.FutureIsAlreadyComputed:
            pass
        if len(seen) != 2:
            return fail("second completion notified subscribers")
    return None


# ---------------------------------------------------------------------------
# batching (C11)

def _mk_batch(asynq, flush_body, cancel_body=None, switch_log=None):
    from asynq import batching

    class B(batching.BatchBase):
        def __init__(self):
            super().__init__()
            self.flushes = 0
            self.switched_before_flush = None
            self._switched = False

        def _try_switch_active_batch(self):
            self._switched = True

        def _flush(self):
            self.flushes += 1
            self.switched_before_flush = self._switched
            flush_body(self)

        def _cancel(self):
            if cancel_body:
                cancel_body(self)

    class I(batching.BatchItemBase):
        pass
    return B, I


@scenario(["batching.BatchBase.flush", "batching.BatchBase._compute", "batching.BatchBase._computed",
           "batching.BatchBase.cancel", "batching.BatchItemBase.__init__", "batching.BatchItemBase._compute",
           "batching.BatchBase.__init__", "batching.BatchBase.is_flushed", "batching.BatchBase.is_cancelled",
           "batching.BatchBase.is_empty"], ["C11", "C05"])
def batch_lifecycle(req):
    """flush/cancel/add-item lifecycle with flush bodies that set all, some or no items, raise Exception or BaseException."""
    import asynq
    from asynq import batching, futures

    class Quit(BaseException):
        pass

    def set_all(b):
        for i, it in enumerate(b.items):
            it.set_value(i)

    def set_some(b):
        for i, it in enumerate(b.items):
            if i % 2 == 0:
                it.set_value(i)

    def set_none(b):
        pass

    def raise_exc(b):
        b.items[0].set_value("kept")
        raise ValueError("flush failed")

    def raise_base(b):
        raise Quit()

    for name, body in [("all", set_all), ("some", set_some), ("none", set_none), ("exc", raise_exc), ("base", raise_base)]:
        B, I = _mk_batch(asynq, body)
        b = B()
        if b.is_flushed() or b.is_cancelled() or not b.is_empty():
            return fail("fresh batch state wrong", body=name)
        items = [I(b) for _ in range(3)]
        if [it.index for it in items] != [0, 1, 2] or b.is_empty():
            return fail("item indices / is_empty wrong", body=name)
        order = []
        b.on_computed.subscribe(lambda _b: order.append(("batch", [it.is_computed() for it in items])))
        try:
            b.flush()
        except BaseException as e:
            return fail("flush() raised for flush body %r" % name, exc=repr(e))
        if b.flushes != 1 or b.switched_before_flush is not True:
            return fail("flush body count / active-batch switch order wrong", body=name, flushes=b.flushes,
                        switched_before_flush=b.switched_before_flush)
        if not b.is_flushed():
            return fail("batch not flushed after flush()", body=name)
        if not all(it.is_computed() for it in items):
            return fail("item left pending after flush", body=name, computed=[it.is_computed() for it in items])
        if order != [("batch", [True, True, True])]:
            return fail("batch announced before all its items were complete (or not exactly once)", body=name, order=repr(order))
        # outcomes
        if name == "all" and [it.value() for it in items] != [0, 1, 2]:
            return fail("item values differ from what the flush set", body=name)
        if name == "some":
            if items[0].value() != 0 or items[2].value() != 2 or not isinstance(items[1].error(), AssertionError):
                return fail("unset item not failed with AssertionError / set item lost", body=name)
        if name == "none" and not all(isinstance(it.error(), AssertionError) for it in items):
            return fail("unset items must fail with AssertionError", body=name)
        if name == "exc":
            if items[0].value() != "kept" or not isinstance(items[1].error(), ValueError):
                return fail("flush error must reach unset items, set items keep their value", body=name,
                            e=repr(items[1].error()))
            if not b.is_cancelled():
                return fail("batch with failed flush must report is_cancelled()", body=name)
        if name == "base" and not isinstance(items[0].error(), Quit):
            return fail("BaseException from the flush body must become the items' error", body=name)
        try:
            b.flush()
            return fail("second flush() did not raise", body=name)
        except batching.BatchingError:
            pass
        if b.flushes != 1:
            return fail("second flush ran the body", body=name)
        try:
            b.cancel()
        except BaseException as e:
            return fail("cancel() on a finished batch raised", exc=repr(e))
        try:
            I(b)
            return fail("item added to a finished batch", body=name)
        except AssertionError:
            pass
    # the flush triggered by asking an item (value() / error() / call) instead of flush(): same outcomes per item
    for name, body in [("all", set_all), ("some", set_some), ("none", set_none), ("exc", raise_exc), ("base", raise_base)]:
        for ask in ("value", "error", "call"):
            for which in (0, 1):
                B, I = _mk_batch(asynq, body)
                b = B()
                items = [I(b) for _ in range(3)]
                it = items[which]
                try:
                    got = ("ret", it.value() if ask == "value" else it.error() if ask == "error" else it())
                except BaseException as e:
                    got = ("exc", e)
                if b.flushes != 1 or not b.is_flushed() or not all(x.is_computed() for x in items):
                    return fail("asking an item of a pending batch must flush the batch exactly once and complete every item", body=name, ask=ask)
                own_err = it._error
                if ask == "error":
                    ok = got[0] == "ret" and got[1] is own_err
                elif own_err is None:
                    ok = got[0] == "ret" and got[1] == it._value
                else:
                    ok = got[0] == "exc" and got[1] is own_err
                if not ok:
                    return fail("an item whose request triggered the flush does not report its own outcome (what the flush set for it)",
                                body=name, ask=ask, item=which, got=repr(got)[:120], item_value=repr(it._value)[:60], item_error=repr(own_err)[:80])
                if name == "exc" and (items[0]._value != "kept" or items[0]._error is not None or not isinstance(items[1]._error, ValueError)):
                    return fail("flush error must reach unset items only; set items keep their value (item-triggered flush)", body=name, ask=ask)
    # cancel paths
    for err in (None, KeyError("why")):
        B, I = _mk_batch(asynq, set_all)
        b = B()
        items = [I(b) for _ in range(2)]
        try:
            b.cancel(err) if err is not None else b.cancel()
        except BaseException as e:
            return fail("cancel() raised", exc=repr(e))
        if b.flushes != 0 or not b.is_cancelled() or not b.is_flushed():
            return fail("cancel must finish the batch without running the body", flushes=b.flushes)
        for it in items:
            e = it.error()
            if err is None and not isinstance(e, batching.BatchCancelledError):
                return fail("cancelled item error type", e=repr(e))
            if err is not None and e is not err:
                return fail("cancelled item must carry the given error", e=repr(e))
        try:
            b.flush()
            return fail("flush after cancel did not raise")
        except batching.BatchingError:
            pass
    # item.value() flushes a pending batch
    B, I = _mk_batch(asynq, set_all)
    b = B()
    items = [I(b) for _ in range(2)]
    if items[1].value() != 1 or b.flushes != 1 or not b.is_flushed():
        return fail("item.value() must flush its pending batch once", flushes=b.flushes)
    if B().get_priority() != (0, 0) or (lambda bb: (I(bb), I(bb), bb.get_priority())[2])(B()) != (0, 2):
        return fail("default priority is (0, number of items)")
    return None


# ---------------------------------------------------------------------------
# scheduler (C02, C05, C08)

def _fresh_scheduler():
    import asynq
    from asynq import scheduler
    scheduler.reset()
    return scheduler.get_scheduler()


@scenario(["scheduler.TaskScheduler._select_batch_to_flush", "scheduler.TaskScheduler._continue_with_batch",
           "scheduler.TaskScheduler._schedule_batch", "batching.BatchBase.get_priority"], ["C05"])
def sched_select_small_scope(req):
    """_select_batch_to_flush on every set of <=3 batches x items 0..2 x flushed? x priority in {0,1,2}: result eligible, no eligible batch has greater priority, exactly the ineligible dropped."""
    import itertools
    from asynq import batching
    s = _fresh_scheduler()

    class B(batching.BatchBase):
        def __init__(self, prio):
            super().__init__()
            self.prio = prio

        def _try_switch_active_batch(self):
            pass

        def _flush(self):
            for it in self.items:
                it.set_value(None)

        def get_priority(self):
            return self.prio if self.prio is not None else super().get_priority()

    class I(batching.BatchItemBase):
        pass
    specs = list(itertools.product([0, 1, 2], [False, True], [0, 1, 2, None]))
    for n in (1, 2, 3):
        for combo in itertools.product(specs, repeat=n):
            if n == 3 and sum(1 for c in combo if c[1]) > 1:
                continue      # keep it small
            bs = []
            for nitems, flushed, prio in combo:
                b = B(prio if prio is None else (prio,))
                for _ in range(nitems):
                    I(b)
                bs.append(b)
            want_elig = [b for b, (nitems, flushed, prio) in zip(bs, combo) if nitems > 0 and not flushed]
            for b, (nitems, flushed, prio) in zip(bs, combo):
                if flushed:
                    b.items and None
                    b.set_value(None) if False else b.flush()
            # flushing clears items: rebuild eligibility from the live objects
            elig = [b for b in bs if len(b.items) > 0 and not b.is_flushed()]
            s._batches = set(bs)
            r = s._select_batch_to_flush()
            desc = [(len(b.items), b.is_flushed(), b.get_priority()) for b in bs]
            if not elig:
                if r is not None:
                    return fail("returned a batch although none is eligible", batches=repr(desc))
            else:
                if r is None or r not in elig:
                    return fail("result is not an eligible (non-empty, unflushed) batch", batches=repr(desc),
                                result=None if r is None else repr((len(r.items), r.is_flushed())))
                if any(r.get_priority() < b.get_priority() for b in elig):
                    return fail("an eligible batch has greater priority than the selected one", batches=repr(desc),
                                selected=repr(r.get_priority()))
            if s._batches != set(elig):
                return fail("the batch set must keep exactly the eligible batches", batches=repr(desc),
                            kept=len(s._batches), expected=len(elig))
    return None


@scenario(["scheduler.TaskScheduler._continue_with_batch", "scheduler.TaskScheduler._flush_batch",
           "scheduler.TaskScheduler.wait_for", "batching.BatchBase.flush"], ["C05", "C20"])
def sched_flush_events(req):
    """before/after flush events fire exactly once around each scheduler flush (after even when the flush hook fails); each batch flushed once; nothing flushed when nothing is eligible, for every value of DUMP_FLUSH_BATCH."""
    import asynq, io, contextlib
    from asynq import batching, debug, scheduler
    for dump in (False, True):
        debug.options.DUMP_FLUSH_BATCH = dump
        try:
            s = _fresh_scheduler()
            events = []
            s.on_before_batch_flush.subscribe(lambda b: events.append(("before", b)))
            s.on_after_batch_flush.subscribe(lambda b: events.append(("after", b)))
            flushed = []

            class B(batching.BatchBase):
                def _try_switch_active_batch(self):
                    pass

                def _flush(self):
                    flushed.append(self)
                    events.append(("flush", self))
                    for it in self.items:
                        it.set_value(1)

            class I(batching.BatchItemBase):
                pass
            buf = io.StringIO()
            with contextlib.redirect_stdout(buf):
                try:
                    r = s._continue_with_batch()
                except BaseException as e:
                    return fail("_continue_with_batch raised with nothing to flush", DUMP_FLUSH_BATCH=dump, exc=repr(e))
                if r is not None or events:
                    return fail("flushed something with an empty batch set", DUMP_FLUSH_BATCH=dump)
                b1, b2 = B(), B()
                I(b1); I(b2); I(b2)
                s._schedule_batch(b1); s._schedule_batch(b2)
                r = s._continue_with_batch()
            if r is not b2 or flushed != [b2] or events != [("before", b2), ("flush", b2), ("after", b2)]:
                return fail("one flush of the largest batch with before/after events around it expected",
                            DUMP_FLUSH_BATCH=dump, events=[e[0] for e in events], picked_largest=r is b2)
            if b2 in s._batches or b1 not in s._batches:
                return fail("flushed batch must leave the set, the other must stay", DUMP_FLUSH_BATCH=dump)
            # the batch is no longer registered while its flush body runs (a nested flush must not pick it again)
            inside = []

            class Probe(batching.BatchBase):
                def _try_switch_active_batch(self):
                    pass

                def _flush(self):
                    inside.append(self in s._batches)
                    inside.append(s._select_batch_to_flush() is self)
                    for it in self.items:
                        it.set_value(1)
            pb = Probe()
            I(pb); I(pb); I(pb)
            s._schedule_batch(pb)
            with contextlib.redirect_stdout(buf):
                s._continue_with_batch()
            if inside != [False, False]:
                return fail("a batch must be removed from the scheduler's set before its flush body runs (else a nested flush re-selects it)",
                            registered_during_flush=inside[0] if inside else None, reselectable=inside[1] if len(inside) > 1 else None)
        finally:
            debug.options.DUMP_FLUSH_BATCH = False
    # nested synchronous flush of the same batch kind: outer wait_for must not fail when nothing is left
    from asynq import asynq as asynq_dec
    for dump in (False, True):
        debug.options.DUMP_FLUSH_BATCH = dump
        try:
            scheduler.reset()

            @asynq_dec()
            def inner(v):
                r = yield batching.DebugBatchItem("k", v)
                return r

            @asynq_dec()
            def t2():
                return inner(2)          # synchronous call inside a task: flushes batch 'k'

            @asynq_dec()
            def root():
                a, b = yield inner.asynq(1), t2.asynq()
                return (a, b)
            buf = io.StringIO()
            with contextlib.redirect_stdout(buf):
                try:
                    got = root()
                except BaseException as e:
                    return fail("computation fails only with DUMP_FLUSH_BATCH=%s" % dump, exc=repr(e))
            if got != (1, 2):
                return fail("wrong result", got=repr(got), DUMP_FLUSH_BATCH=dump)
        finally:
            debug.options.DUMP_FLUSH_BATCH = False
            scheduler.reset()
    return None


@scenario(["scheduler.TaskScheduler._execute", "scheduler.TaskScheduler._continue_with_task",
           "scheduler.TaskScheduler._handle_async_task", "scheduler.TaskScheduler.wait_for",
           "async_task.AsyncTask._continue", "async_task.AsyncTask._compute"], ["C01", "C02", "C08"])
def sched_clean_after_failures(req):
    """After computations that fail at a task step, a lazily computed Future, a batch item or a context resume/pause, the failure is delivered at the yield (catchable) and the scheduler keeps no task and no active task."""
    import asynq
    from asynq import scheduler, futures, batching, contexts
    from asynq import asynq as A

    def clean(label):
        s = scheduler.get_scheduler()
        if len(s._tasks) != 0 or s.active_task is not None:
            return fail("scheduler not clean after " + label, tasks=len(s._tasks), active=repr(s.active_task))
        return None

    scheduler.reset()

    @A()
    def lazy_fail_caught():
        try:
            yield futures.Future(lambda: 1 // 0)
        except ZeroDivisionError:
            return "caught"
        return "not raised"
    try:
        got = lazy_fail_caught()
    except ZeroDivisionError as e:
        r = clean("a failing lazily computed Future")
        return fail("the error of a yielded lazily-computed Future bypassed the task's try/except and escaped value()",
                    exc=repr(e), scheduler=(r or {}).get("what"))
    if got != "caught":
        return fail("failing Future not delivered at the yield", got=repr(got))
    r = clean("a failing lazily computed Future (caught)")
    if r:
        return r

    class Boom(contexts.AsyncContext):
        def __init__(self):
            self.n = 0

        def resume(self):
            self.n += 1
            if self.n == 2:
                raise ValueError("resume failed")

        def pause(self):
            pass

    @A()
    def in_ctx():
        with Boom():
            yield batching.DebugBatchItem("ctxk", 1)
        return "done"
    scheduler.reset()
    try:
        got = in_ctx()
        return fail("context resume failure lost", got=repr(got))
    except ValueError:
        pass
    except BaseException as e:
        r = clean("a context whose resume() raises")
        return fail("a context resume() failure must fail the task with that error, not escape as %s" % type(e).__name__,
                    exc=repr(e), scheduler=(r or {}).get("what"))
    r = clean("a context whose resume() raises")
    if r:
        return r

    @A()
    def step_fail():
        yield None
        raise KeyError("step")

    @A()
    def parent():
        try:
            yield step_fail.asynq()
        except KeyError:
            pass
        if scheduler.get_active_task() is None:
            raise AssertionError("no active task inside a task")
        return 7
    scheduler.reset()
    if parent() != 7:
        return fail("child failure not catchable")
    r = clean("a failing child task")
    if r:
        return r
    if scheduler.get_active_task() is not None:
        return fail("active task not None after the outermost call returned")
    return None


def _load_all():
    import importlib
    for m in ("sc_core", "sc_tools", "sc_misc", "sc_random", "sc_more"):
        try:
            importlib.import_module(m)
        except ModuleNotFoundError as e:
            if e.name != m:
                raise


def all_for_property(pid):
    return [f for fns, ps, f in REG if pid in ps]


_load_all()


@scenario(["futures.FutureBase.", "futures.Future.", "futures.ConstFuture.", "futures.ErrorFuture."], ["C10"])
def fut_random_histories(req):
    """Random histories of set_value / set_error / reset_unsafe / value() / error() / call / is_computed() on Future (providers that return or raise, re-run after a reset), ConstFuture and ErrorFuture, with a well-behaved and a raising subscriber, against a reference state machine: every operation returns or raises what the reference says, a refused second set changes nothing, subscribers are notified once per completion after the outcome is visible."""
    import random, io, contextlib
    from asynq import futures
    seed0 = int((req or {}).get("seed", 0) or 0)
    n = 3000 if __import__("os").environ.get("VERIF_TIER", "quick") == "thorough" else 600

    class E(Exception):
        pass
    for seed in range(seed0, seed0 + n):
        rnd = random.Random(seed)
        kind = rnd.choice(("future", "future", "future", "const", "error"))
        outcomes = [(rnd.random() < 0.6, i) for i in range(6)]      # provider results, in call order
        errs = {}
        calls = [0]
        seen = []

        def provider():
            ok, i = outcomes[calls[0] % len(outcomes)]
            calls[0] += 1
            if ok:
                return ("v", i)
            errs[i] = E("provider %d" % i)
            raise errs[i]
        m = {"computed": False, "val": None, "err": None, "notified": 0, "pcalls": 0}
        e0 = E("initial")
        if kind == "future":
            f = futures.Future(provider)
        elif kind == "const":
            f = futures.ConstFuture("c")
            m.update(computed=True, val="c")
        else:
            f = futures.ErrorFuture(e0)
            m.update(computed=True, err=e0)
        if kind == "future":
            f.on_computed.subscribe(lambda fut: seen.append((fut.is_computed(), fut._value, fut._error)))

            def boom(fut):
                raise ValueError("subscriber")
            f.on_computed.subscribe(boom)
            f.on_computed.subscribe(lambda fut: seen.append("last"))

        def m_compute():
            ok, i = outcomes[m["pcalls"] % len(outcomes)]
            m["pcalls"] += 1
            m["computed"] = True
            m["notified"] += 1
            if ok:
                m["val"], m["err"] = ("v", i), None
                return None
            m["val"], m["err"] = None, ("provider", i)
            return ("provider", i)

        def same_err(real, model):
            if model is None:
                return real is None
            if isinstance(model, tuple):
                return real is errs.get(model[1])
            return real is model
        hist = []
        for step in range(rnd.randrange(2, 9)):
            op = rnd.choice(("set_value", "set_error", "reset", "value", "error", "call", "is_computed", "value", "error"))
            if kind != "future" and op == "reset" and rnd.random() < 0.5:
                op = "value"
            hist.append(op)
            buf = io.StringIO()
            with contextlib.redirect_stdout(buf), contextlib.redirect_stderr(buf):
                try:
                    if op == "set_value":
                        got = ("ret", f.set_value(("s", step)))
                    elif op == "set_error":
                        es = E("set %d" % step)
                        got = ("ret", f.set_error(es))
                    elif op == "reset":
                        got = ("ret", f.reset_unsafe())
                    elif op == "value":
                        got = ("ret", f.value())
                    elif op == "call":
                        got = ("ret", f())
                    elif op == "error":
                        got = ("ret", f.error())
                    else:
                        got = ("ret", f.is_computed())
                except Exception as e:
                    got = ("exc", e)
            # ---- reference
            if op in ("set_value", "set_error"):
                if m["computed"]:
                    want = ("exc", futures.FutureIsAlreadyComputed)
                else:
                    m["computed"] = True
                    m["notified"] += 1
                    if op == "set_value":
                        m["val"], m["err"] = ("s", step), None
                    else:
                        m["val"], m["err"] = None, es
                    want = ("ret", None)
            elif op == "reset":
                m["computed"], m["err"], m["val"] = False, None, None
                want = ("ret", None)
            elif op in ("value", "call", "error"):
                raised = None
                if not m["computed"]:
                    if kind != "future":
                        want = ("exc", NotImplementedError)     # nothing to recompute after a reset of a constant future
                        m_ok = False
                        raised = "notimpl"
                    else:
                        raised = m_compute()
                if raised == "notimpl":
                    pass
                elif raised is not None:
                    want = ("exc", raised)                       # the provider's exception propagates out of the computing call
                elif op == "error":
                    want = ("ret_err", m["err"])
                elif m["err"] is not None:
                    want = ("exc", m["err"])
                else:
                    want = ("ret", m["val"])
            else:
                want = ("ret", m["computed"])
            ok = True
            if want[0] == "ret":
                ok = got[0] == "ret" and got[1] == want[1]
            elif want[0] == "ret_err":
                ok = got[0] == "ret" and same_err(got[1], want[1])
            elif isinstance(want[1], type):
                ok = got[0] == "exc" and isinstance(got[1], want[1])
            else:
                ok = got[0] == "exc" and same_err(got[1], want[1])
            if not ok:
                return fail("a future operation does not report the outcome the history determines", kind=kind, seed=seed, history=hist,
                            got=repr(got)[:160], expected=repr(want)[:160])
            if f.is_computed() != m["computed"]:
                return fail("is_computed() disagrees with the history", kind=kind, seed=seed, history=hist)
            if kind == "future":
                if len([x for x in seen if x == "last"]) != m["notified"] or len(seen) != 2 * m["notified"]:
                    return fail("subscribers are not notified exactly once per completion (also after one of them raised)", kind=kind,
                                seed=seed, history=hist, notifications=len(seen), completions=m["notified"])
                if any(x != "last" and x[0] is not True for x in seen):
                    return fail("a subscriber was notified before the outcome was visible", kind=kind, seed=seed, history=hist)
    return None
