"""Call resolution, contract application and builtin models (mixin of FuncExec)."""
import ast
import z3
from . import smt
from .smt import V, NONE, TRUE, FALSE, NONE_MARK
from .state import fresh_v, fresh_int, fresh_name, field_sort, AVI, AVB
from .spec import SpecEnv, SpecError, as_v, as_bool, as_int

LIST_METHODS = {"append", "pop", "clear", "extend", "index", "insert", "remove", "copy"}
SET_METHODS = {"add", "remove", "discard", "clear"}
DICT_METHODS = {"get", "pop", "setdefault", "values", "keys", "items", "clear"}


class CallMixin:
    def get_contract(self, name):
        from .symexec import Undecided
        c = self.reg.contracts.get(name)
        if c is None:
            raise Undecided("no contract for %s (called from %s)" % (name, self.qual))
        return c

    def call_ordinals(self):
        if not hasattr(self, "_ordinals"):
            counts = {}
            self._ordinals = {}
            for n in ast.walk(self.fn):
                if isinstance(n, ast.Call):
                    try:
                        t = ast.unparse(n.func)
                    except Exception:
                        continue
                    counts[t] = counts.get(t, 0) + 1
                    self._ordinals[id(n)] = counts[t]
        return self._ordinals

    def resolve_alias(self, head):
        """module alias -> repo module name ('core_errors' -> 'qcore.errors', 'futures' -> 'futures')."""
        a = self.module.aliases.get(head)
        if a is None:
            return head
        return a.lstrip(".")

    def resolve_contract_name(self, e, st):
        """Name of the contract a Call node resolves to, or None (builtins...)."""
        text = ast.unparse(e.func)
        if text in self.contract.calls:
            return self.contract.calls[text]
        if text in self.reg.global_calls:
            return self.reg.global_calls[text]
        f = e.func
        if isinstance(f, ast.Name):
            if f.id in st.locals:
                return None
            q = "%s.%s" % (self.module.name, f.id)
            if q in self.reg.contracts:
                return q
            a = self.module.aliases.get(f.id)
            if a:
                q = a.lstrip(".")
                if q in self.reg.contracts:
                    return q
                q2 = q.split(".", 1)[-1] if q.startswith("asynq.") else q
                if q2 in self.reg.contracts:
                    return q2
            return None
        if isinstance(f, ast.Attribute):
            mref = self.is_module_ref(f.value, st)
            if mref is not None:
                parts = mref.split(".")
                cands = []
                # 'futures.FutureBase' + '._computed', 'asynq.scheduler' + '.get_scheduler'
                tail = [p for p in parts if p != "asynq"]
                if tail:
                    head = self.resolve_alias(tail[0]).split(".")
                    head = [h for h in head if h != "asynq"]
                    cands.append(".".join(head + tail[1:] + [f.attr]))
                    cands.append(".".join(tail + [f.attr]))
                    # class referenced by bare name: add its module
                    if self.eng.ct.known(tail[0]) and self.eng.repo.class_module(tail[0]):
                        cands.append(".".join([self.eng.repo.class_module(tail[0])] + tail + [f.attr]))
                for c in cands:
                    if c in self.reg.contracts:
                        return c
                return None
            t = self.static_type(f.value, st)
            if t and self.eng.ct.known(t):
                q = self.eng.repo.method_owner(t, f.attr) if self.eng.repo.class_module(t) else None
                if q:
                    # dynamic dispatch: prefer the virtual contract every override refines
                    if (q + "!virtual") in self.reg.contracts:
                        return q + "!virtual"
                    return q
                # method defined in an external base: contract may be registered as Class.meth
                for c in self.eng.ct.ancestors(t):
                    for cand in ("%s.%s" % (c, f.attr),):
                        if cand in self.reg.contracts:
                            return cand
        return None

    # ------------------------------------------------------------------
    def ev_Call(self, e, st):
        from .symexec import Undecided
        f = e.func
        text = ast.unparse(f)
        # ---- super().__init__ / super(C, self).m(...)
        if isinstance(f, ast.Attribute) and isinstance(f.value, ast.Call) and isinstance(f.value.func, ast.Name) and f.value.func.id == "super":
            yield from self.call_super(e, st)
            return
        hinted = text in self.contract.calls or text in self.reg.global_calls
        # ---- instantiation of a class defined inside this function
        if isinstance(f, ast.Name) and ("$localcls:" + f.id) in st.ghost and not hinted:
            for st2, vs, x in self.ev_list(list(e.args), st):
                if x is not None:
                    yield st2, None, x
                    continue
                o = fresh_v("new_" + f.id)
                st2.assume(z3.Not(st2.heap.sel("$alloc", o)))
                st2.assume(z3.And(V.is_obj(o), V.oid(o) > 0))
                self.assume_closed(st2, o)
                st2.heap.store("$alloc", o, z3.BoolVal(True))
                st2.assume(smt.typeof(o) == st2.ghost["$localcls:" + f.id])
                yield st2, o, None
            return
        # ---- builtins by name
        if isinstance(f, ast.Name) and f.id not in st.locals and not hinted:
            h = getattr(self, "bi_" + f.id, None)
            if h is not None:
                yield from h(e, st)
                return
        # ---- methods of builtin containers
        if isinstance(f, ast.Attribute) and not hinted and self.is_module_ref(f.value, st) is None:
            t = self.static_type(f.value, st)
            if t == "list" and f.attr in LIST_METHODS:
                yield from self.list_method(e, st)
                return
            if t == "set" and f.attr in SET_METHODS:
                yield from self.set_method(e, st)
                return
            if t in ("dict", "OrderedDict") and f.attr in DICT_METHODS:
                yield from self.dict_method(e, st)
                return
        cname = self.resolve_contract_name(e, st)
        if cname is None:
            # constructor?
            last = text.split(".")[-1]
            if self.eng.ct.known(last) and (isinstance(f, ast.Name) and f.id not in st.locals or self.is_module_ref(getattr(f, "value", None), st) is not None):
                yield from self.construct(last, e, st)
                return
            raise Undecided("cannot resolve call %s at line %d of %s" % (text, e.lineno, self.qual))
        c = self.get_contract(cname)
        self.ensure_params(c)
        # receiver?
        recv = None
        if isinstance(f, ast.Attribute) and self.is_module_ref(f.value, st) is None and c.params and (c.params[0] in ("self",) or c.kind == "method"):
            recv = f.value
        arg_nodes = ([recv] if recv is not None else []) + [a for a in e.args if not isinstance(a, ast.Starred)]
        star = [a.value for a in e.args if isinstance(a, ast.Starred)]
        kw_nodes = [(k.arg, k.value) for k in e.keywords if k.arg is not None]
        dstar = [k.value for k in e.keywords if k.arg is None]
        if c.kind == "callvalue":
            # contract about calling a function *value*: the callee value is the first argument
            arg_nodes = [f] + arg_nodes
        for st2, vs, x in self.ev_list(arg_nodes + [n for _, n in kw_nodes] + star + dstar, st):
            if x is not None:
                yield st2, None, x
                continue
            n_pos = len(arg_nodes)
            pos = vs[:n_pos]
            kws = dict(zip([k for k, _ in kw_nodes], vs[n_pos:n_pos + len(kw_nodes)]))
            rest = vs[n_pos + len(kw_nodes):]
            sv = rest[0] if star else None
            dv = rest[len(star)] if dstar else None
            yield from self.apply_contract(c, pos, kws, st2, e, cname, star=sv, dstar=dv)

    def call_by_hint(self, text, args, kwargs, st, node, recv_type=None, meth=None):
        """Call identified by a source text (used for protocol calls such as
        __enter__/__exit__/__getitem__)."""
        from .symexec import Undecided
        cname = self.contract.calls.get(text) or self.reg.global_calls.get(text)
        if cname is None and recv_type and meth and self.eng.repo.class_module(recv_type):
            cname = self.eng.repo.method_owner(recv_type, meth)
        if cname is None:
            raise Undecided("cannot resolve protocol call %s in %s" % (text, self.qual))
        return self.apply_contract(self.get_contract(cname), args, kwargs, st, node, cname)

    def call_super(self, e, st):
        from .symexec import Undecided
        f = e.func
        sargs = f.value.args
        cls = sargs[0].id if sargs else self.cls
        meth = f.attr
        bases = self.eng.repo.class_bases().get(cls, [])
        target = None
        for b in bases:
            q = self.eng.repo.method_owner(b, meth)
            if q:
                target = q
                break
        if target is None:
            # external base (object, threading.local, GeneratorExit...): a registered contract or a no-op
            for b in bases:
                cand = "%s.%s" % (b, meth)
                if cand in self.reg.contracts:
                    target = cand
                    break
        if target is None:
            for st2, vs, x in self.ev_list(list(e.args), st):
                yield st2, (NONE if x is None else None), x
            return
        c = self.get_contract(target)
        for st2, vs, x in self.ev_list(list(e.args), st):
            if x is not None:
                yield st2, None, x
                continue
            kw = {}
            yield from self.apply_contract(c, [st2.locals["self"]] + vs, kw, st2, e, target)

    def construct(self, clsname, e, st):
        """C(args): allocate, then apply the contract of C.__init__ if the repo defines one."""
        for st2, vs, x in self.ev_list([a for a in e.args], st):
            if x is not None:
                yield st2, None, x
                continue
            kws = {}
            bad = False
            cur = [(st2, kws)]
            kwvals = []
            sts = [(st2, [])]
            for k in e.keywords:
                nxt = []
                for s_, acc in sts:
                    for s3, v3, x3 in self.ev(k.value, s_):
                        if x3 is not None:
                            yield s3, None, x3
                        else:
                            nxt.append((s3, acc + [(k.arg, v3)]))
                sts = nxt
            for st3, kwl in sts:
                o = self.alloc(st3, clsname)
                init = self.eng.repo.method_owner(clsname, "__init__")
                if init is None:
                    for c_ in self.eng.ct.ancestors(clsname):
                        if ("%s.__init__" % c_) in self.reg.contracts:
                            init = "%s.__init__" % c_
                            break
                if init is None:
                    for i, a in enumerate(vs):
                        st3.heap.store("$arg%d" % i, o, a)
                    if self.eng.ct.is_sub(clsname, "StopIteration"):
                        st3.heap.store("value", o, vs[0] if vs else NONE)
                        st3.heap.store("$has:value", o, z3.BoolVal(True))
                    yield st3, o, None
                    continue
                c = self.get_contract(init)
                for st4, _r, x4 in self.apply_contract(c, [o] + vs, dict(kwl), st3, e, init):
                    yield st4, (o if x4 is None else None), x4

    # ------------------------------------------------------------------
    def ensure_params(self, c):
        from .symexec import Undecided
        if c.params is not None:
            return c.params
        r = self.eng.repo.function(c.name)
        if r is None:
            raise Undecided("contract %s has no parameter list" % c.name)
        a = r[1].args
        params = [x.arg for x in a.posonlyargs + a.args]
        if a.vararg:
            params.append("*" + a.vararg.arg)
        params += [x.arg for x in a.kwonlyargs]
        if a.kwarg:
            params.append("**" + a.kwarg.arg)
        c.params = params
        ds = a.defaults
        names = [x.arg for x in a.posonlyargs + a.args]
        for n, d in zip(names[len(names) - len(ds):], ds):
            if n not in c.defaults:
                try:
                    c.defaults[n] = ast.unparse(d)
                except Exception:
                    pass
        for x, d in zip(a.kwonlyargs, a.kw_defaults):
            if d is not None and x.arg not in c.defaults:
                c.defaults[x.arg] = ast.unparse(d)
        return params

    def bind_params(self, c, pos, kws, st, star=None, dstar=None):
        from .symexec import Undecided
        params = self.ensure_params(c)
        if False:
            r = self.eng.repo.function(c.name)
            if r is None:
                raise Undecided("contract %s has no parameter list" % c.name)
            a = r[1].args
            params = [x.arg for x in a.posonlyargs + a.args]
            if a.vararg:
                params.append("*" + a.vararg.arg)
            params += [x.arg for x in a.kwonlyargs]
            if a.kwarg:
                params.append("**" + a.kwarg.arg)
            c.params = params
            # defaults from the AST for constants
            ds = a.defaults
            names = [x.arg for x in a.posonlyargs + a.args]
            for n, d in zip(names[len(names) - len(ds):], ds):
                if n not in c.defaults:
                    try:
                        c.defaults[n] = ast.unparse(d)
                    except Exception:
                        pass
            for x, d in zip(a.kwonlyargs, a.kw_defaults):
                if d is not None and x.arg not in c.defaults:
                    c.defaults[x.arg] = ast.unparse(d)
        names = {}
        plain = [p for p in params if not p.startswith("*")]
        var = [p[1:] for p in params if p.startswith("*") and not p.startswith("**")]
        kvar = [p[2:] for p in params if p.startswith("**")]
        pos = list(pos)
        extra = []
        i = 0
        for p in plain:
            if i < len(pos) and not (var and params.index("*" + var[0]) < params.index(p)):
                names[p] = pos[i]
                i += 1
        extra = pos[i:]
        for k, v in kws.items():
            if k in plain:
                names[k] = v
            elif not kvar:
                raise Undecided("keyword %s not a parameter of %s" % (k, c.name))
        if var:
            if star is not None and not extra:
                names[var[0]] = star
            elif star is None:
                names[var[0]] = self.new_tuple(st, extra)
            else:
                # prefix + star tuple
                t = fresh_v("argtuple")
                st.assume(smt.typeof(t) == self.eng.ct.cls("tuple"))
                st.assume(smt.tlen(t) == len(extra) + smt.tlen(star))
                for j, v in enumerate(extra):
                    st.assume(smt.titem(t, z3.IntVal(j)) == v)
                jx = z3.Const(fresh_name("j!at"), z3.IntSort())
                st.assume(smt.forall([jx], z3.Implies(z3.And(0 <= jx, jx < smt.tlen(star)),
                                                     smt.titem(t, len(extra) + jx) == smt.titem(star, jx)),
                                    patterns=[smt.titem(star, jx)]))
                st.assume(st.heap.sel("$alloc", t))
                names[var[0]] = t
        elif extra or star is not None:
            raise Undecided("too many positional arguments for %s" % c.name)
        if kvar:
            other = {k: v for k, v in kws.items() if k not in plain}
            if dstar is not None and not other:
                names[kvar[0]] = dstar
            elif dstar is None and not other:
                d = self.alloc(st, "dict")
                st.heap.store("$dhas", d, z3.K(V, z3.BoolVal(False)))
                st.heap.store("$olen", d, z3.IntVal(0))
                names[kvar[0]] = d
            elif dstar is None:
                d = self.alloc(st, "dict")
                st.heap.store("$dhas", d, z3.K(V, z3.BoolVal(False)))
                st.heap.store("$olen", d, z3.IntVal(0))
                for k, v in other.items():
                    self.dict_set(st, d, smt.const("str:" + k), v, assume_absent=True)
                names[kvar[0]] = d
            else:
                raise Undecided("keywords + ** for %s" % c.name)
        elif dstar is not None:
            raise Undecided("** passed to %s" % c.name)
        for p in plain:
            if p not in names:
                if p in c.defaults:
                    env = SpecEnv(self.eng, names, st.heap, st.heap)
                    names[p] = as_v(env.ev(ast.parse(c.defaults[p], mode="eval").body))
                else:
                    raise Undecided("missing argument %s for %s" % (p, c.name))
        return names

    def apply_contract(self, c, pos, kws, st, node, cname, star=None, dstar=None):
        """-> generator of (state, result, exc)"""
        from .symexec import Undecided
        self.mark_escapes(st, list(pos) + list(kws.values()) + [x for x in (star, dstar) if x is not None])
        names = self.bind_params(c, pos, kws, st, star, dstar)
        self.__dict__.setdefault("applied_contracts", set()).add(c.name)
        short = cname.split(".", 1)[-1] if cname.count(".") else cname
        occ = self.call_ordinals().get(id(node), 0)
        lab = "%s@%d" % (short, occ) if occ else short
        ln = getattr(node, "lineno", None)
        env0 = SpecEnv(self.eng, names, st.heap, st.heap, fx=self)
        try:
            ctext = (ast.unparse(node.func) if isinstance(node, ast.Call) else
                     "await" if isinstance(node, ast.Await) else "yield" if isinstance(node, ast.Yield) else None)
        except Exception:
            ctext = None
        st.ghost["$callargs"] = (tuple(pos), star, dstar, tuple(sorted(kws.items(), key=lambda kv: kv[0])))
        for r in self.contract.labels.get("site_assumes", {}).get(ctext, []):
            st.assume(self.spec_env(st).formula(r))
        for i, r in enumerate(c.requires):
            self.oblige(st, "call-pre", "%s.%d" % (lab, i + 1), env0.formula(r), ln)
        for i, r in enumerate(self.contract.labels.get("site_requires", {}).get(ctext, [])):
            self.oblige(st, "site-pre", "%s.%d" % (lab, i + 1), self.spec_env(st).formula(r), ln)
        if c.raw_requires:
            for j, g in enumerate(c.raw_requires(env0)):
                self.oblige(st, "call-pre", "%s.r%d" % (lab, j + 1), g, ln)
        if c.pure_when and not getattr(self, "_in_pure", False):
            cond = z3.simplify(env0.formula(c.pure_when))
            if not z3.is_false(cond):
                ps = st.copy() if not z3.is_true(cond) else st
                ps.assume(cond)
                # no effect on the heap: evaluate the postcondition over old == new
                res_p = fresh_v("r_" + short.replace(".", "_"))
                ps.assume(ps.heap.sel("$alloc", res_p))
                envp = SpecEnv(self.eng, names, ps.heap, ps.heap.copy(), result=res_p, fx=self)
                envp.params = set(names)
                envp.callsite = True
                for p in c.post:
                    ps.assume(envp.formula(p))
                if c.xpost is not None:
                    xs = ps.copy()
                    exc = fresh_v("exc_" + short.replace(".", "_"))
                    xs.assume(smt.subclass(smt.typeof(exc), self.eng.ct.cls("BaseException")))
                    xs.assume(xs.heap.sel("$alloc", exc))
                    envx = SpecEnv(self.eng, names, xs.heap, xs.heap.copy(), exc=exc, fx=self)
                    envx.params = set(names)
                    envx.callsite = True
                    dead = False
                    for p in c.xpost:
                        fml = z3.simplify(envx.formula(p))
                        if z3.is_false(fml):
                            dead = True
                            break
                        xs.assume(fml)
                    if not dead and self.feasible(xs):
                        yield xs, None, exc
                yield ps, res_p, None
                if z3.is_true(cond):
                    return
                st.assume(z3.Not(cond))
        old = st.heap.copy()
        key = "$calls:" + cname
        if self.dry:
            self.probe_callees.add(cname)
        st.ghost[key] = st.ghost.get(key, 0) + 1
        st.ghost["$callseq"] = tuple(st.ghost.get("$callseq", ())) + (cname,)
        if c.pure_fn:
            params = [p for p in (c.params or []) if not p.startswith("*")]
            f = z3.Function("pf!" + c.pure_fn, *([V] * len(params) + [V]))
            res = f(*[names[p] for p in params])
        else:
            res = fresh_v("r_" + short.replace(".", "_"))
        st.ghost["$res:" + cname] = res
        if c.modifies == "*":
            # visible-state discipline: object invariants must hold when unknown code may run
            if self.contract.inv_exit and not self.contract.labels.get("noinv@" + short):
                inv = self.eng.inv(st.heap)
                self.oblige_all(st, "inv", "callout:" + lab, [(str(i + 1), f) for i, f in enumerate(inv)], ln)
            st.heap = st.heap.havoc_all()
            self.keep_unescaped(st, old)
            for f_ in self.eng.wf(st.heap):
                st.assume(f_)
            for f_ in self.eng.two_state(old, st.heap, c.labels.get("ts_skip", ())):
                st.assume(f_)
            for f_ in self.eng.inv(st.heap):
                st.assume(f_)
        else:
            st.heap.havoc_fields(c.modifies)
            if c.modifies:
                for f_ in self.eng.wf(st.heap):
                    st.assume(f_)
                if (not c.trusted and c.inv_entry and c.inv_exit) or c.labels.get("keeps_inv"):
                    # the callee proves inv:exit under inv at entry: inv(old) => inv(new)
                    io, inw = self.eng.inv(old), self.eng.inv(st.heap)
                    if io:
                        st.assume(z3.Implies(z3.And(*io), z3.And(*inw)))
            if "$alloc" in c.modifies:
                x = z3.Const(fresh_name("x!al"), V)
                st.assume(smt.forall([x], z3.Implies(old.sel("$alloc", x), st.heap.sel("$alloc", x))))
        st.assume(st.heap.sel("$alloc", res)) if not c.pure_fn else None
        # exceptional continuation
        if c.xpost is not None:
            xs = st.copy()
            exc = fresh_v("exc_" + short.replace(".", "_"))
            xs.assume(smt.subclass(smt.typeof(exc), self.eng.ct.cls("BaseException")))
            xs.assume(xs.heap.sel("$alloc", exc))
            envx = SpecEnv(self.eng, names, xs.heap, old, exc=exc, fx=self)
            envx.params = set(names)
            envx.callsite = True
            dead = False
            for p in c.xpost:
                fml = z3.simplify(envx.formula(p))
                if z3.is_false(fml):
                    dead = True
                    break
                xs.assume(fml)
            if not dead and c.raw_xpost:
                for _l, g in c.raw_xpost(envx):
                    xs.assume(g)
            if not dead:
                xs.trace.append("L%s: %s raises" % (ln, short))
                xs.ghost["$raised:" + str(exc)] = cname       # path ghost behind raised_by()
                for r in self.contract.labels.get("site_assumes_after", {}).get(ctext, []):
                    ea = self.spec_env(xs)
                    ea.old = old
                    xs.assume(ea.formula(r))
                if self.feasible(xs):
                    yield xs, None, exc
        for r in self.contract.labels.get("site_assumes_after", {}).get(ctext, []):
            ea = self.spec_env(st)
            ea.old = old
            st.assume(ea.formula(r))
        envn = SpecEnv(self.eng, names, st.heap, old, result=res, fx=self)
        envn.params = set(names)
        envn.callsite = True
        for p in c.post:
            st.assume(envn.formula(p))
        # facts a caller may use that follow from a proved postcondition plus a definitional axiom instance
        for p in c.labels.get("caller_post", []):
            st.assume(envn.formula(p))
        if c.raw_post:
            for _l, g in c.raw_post(envn):
                st.assume(g)
        if c.returns_type and self.eng.ct.known(c.returns_type) and c.returns_type not in ("tuple",):
            pass
        yield st, res, None

    # ------------------------------------------------------------------
    # builtins
    def _args(self, e, st):
        return self.ev_list(list(e.args), st)

    def bi_len(self, e, st):
        from .symexec import Undecided
        for st2, vs, x in self._args(e, st):
            if x is not None:
                yield st2, None, x
                continue
            t = self.static_type(e.args[0], st2)
            if t == "list":
                yield st2, smt.box(st2.heap.sel("$llen", vs[0])), None
            elif t == "tuple":
                yield st2, smt.box(smt.tlen(vs[0])), None
            elif t in ("dict", "OrderedDict"):
                yield st2, smt.box(st2.heap.sel("$olen", vs[0])), None
            elif t == "set":
                yield st2, smt.box(SET_CARD(st2.heap.sel("$smem", vs[0]))), None
            else:
                raise Undecided("len() of %s (static type %s) line %d" % (ast.unparse(e.args[0]), t, e.lineno))

    def bi_isinstance(self, e, st):
        from .symexec import Undecided
        for st2, v, x in self.ev(e.args[0], st):
            if x is not None:
                yield st2, None, x
                continue
            k = e.args[1]
            ks = k.elts if isinstance(k, ast.Tuple) else [k]
            cls = []
            for kk in ks:
                name = ast.unparse(kk).split(".")[-1]
                if isinstance(kk, ast.Name) and kk.id in st2.locals:
                    cls.append(st2.locals[kk.id])
                elif self.eng.ct.known(name):
                    cls.append(self.eng.ct.cls(name))
                else:
                    raise Undecided("isinstance against unknown class %s" % name)
            yield st2, smt.b2v(self.eng.isinstance_f(v, cls)), None

    def bi_type(self, e, st):
        for st2, vs, x in self._args(e, st):
            if x is not None:
                yield st2, None, x
            else:
                yield st2, smt.typeof(vs[0]), None

    def bi_id(self, e, st):
        for st2, vs, x in self._args(e, st):
            if x is not None:
                yield st2, None, x
            else:
                yield st2, smt.ident(vs[0]), None

    def bi_hasattr(self, e, st):
        from .symexec import Undecided
        if not (isinstance(e.args[1], ast.Constant) and isinstance(e.args[1].value, str)):
            raise Undecided("hasattr with dynamic name")
        name = e.args[1].value
        if name not in self.reg.presence_fields:
            raise Undecided("hasattr(%s): attribute presence not tracked" % name)
        for st2, v, x in self.ev(e.args[0], st):
            if x is not None:
                yield st2, None, x
            else:
                yield st2, smt.b2v(st2.heap.sel("$has:" + name, v)), None

    def bi_getattr(self, e, st):
        from .symexec import Undecided
        if not (isinstance(e.args[1], ast.Constant) and isinstance(e.args[1].value, str)):
            # dynamic attribute name: one heap map indexed by (object, name)
            for st2, vs, x in self._args(e, st):
                if x is not None:
                    yield st2, None, x
                else:
                    yield st2, z3.Select(st2.heap.sel("$dynattr", vs[0]), vs[1]), None
            return
        name = e.args[1].value
        for st2, vs, x in self.ev_list([e.args[0]] + list(e.args[2:]), st):
            if x is not None:
                yield st2, None, x
                continue
            o = vs[0]
            if len(vs) > 1:
                if name not in self.reg.presence_fields:
                    raise Undecided("getattr default on untracked attribute %s" % name)
                has = st2.heap.sel("$has:" + name, o)
                yield st2, z3.If(has, st2.heap.sel(name, o), vs[1]), None
            else:
                if name in self.reg.presence_fields and self.contract.labels.get("attrcheck:" + name):
                    has = st2.heap.sel("$has:" + name, o)
                    bad = st2.copy()
                    bad.assume(z3.Not(has))
                    yield bad, None, self.new_exception(bad, "AttributeError")
                    st2.assume(has)
                yield st2, st2.heap.sel(name, o), None

    def bi_setattr(self, e, st):
        for st2, vs, x in self._args(e, st):
            if x is not None:
                yield st2, None, x
                continue
            if isinstance(e.args[1], ast.Constant) and isinstance(e.args[1].value, str):
                self.store_field(st2, vs[0], e.args[1].value, vs[2])
            else:
                st2.heap.store("$dynattr", vs[0], z3.Store(st2.heap.sel("$dynattr", vs[0]), vs[1], vs[2]))
            yield st2, NONE, None

    def bi_callable(self, e, st):
        for st2, vs, x in self._args(e, st):
            if x is not None:
                yield st2, None, x
            else:
                yield st2, smt.b2v(CALLABLE(vs[0])), None

    def bi_print(self, e, st):
        for st2, vs, x in self.ev_list(list(e.args) + [k.value for k in e.keywords], st):
            yield st2, (NONE if x is None else None), x

    def bi_repr(self, e, st):
        # repr/str of arbitrary values: total, effect-free (assumption, C18)
        from .exprs import opaque_fn
        for st2, vs, x in self._args(e, st):
            if x is not None:
                yield st2, None, x
            else:
                yield st2, opaque_fn("repr", 1)(vs[0]), None

    def bi_str(self, e, st):
        from .exprs import opaque_fn
        for st2, vs, x in self._args(e, st):
            if x is not None:
                yield st2, None, x
            else:
                yield st2, opaque_fn("str", 1)(vs[0]) if vs else smt.const("str:"), None

    def bi_list(self, e, st):
        from .symexec import Undecided
        if not e.args:
            yield st, self.new_list(st), None
            return
        a = e.args[0]
        # list(d.values())
        if isinstance(a, ast.Call) and isinstance(a.func, ast.Attribute) and a.func.attr in ("values", "keys") and self.static_type(a.func.value, st) in ("dict", "OrderedDict"):
            for st2, d, x in self.ev(a.func.value, st):
                if x is not None:
                    yield st2, None, x
                    continue
                o = self.alloc(st2, "list")
                st2.heap.store("$llen", o, st2.heap.sel("$olen", d))
                st2.heap.store("$litem", o, st2.heap.sel("$oval" if a.func.attr == "values" else "$okey", d))
                yield st2, o, None
            return
        for st2, vs, x in self._args(e, st):
            if x is not None:
                yield st2, None, x
                continue
            t = self.static_type(a, st2)
            o = self.alloc(st2, "list")
            if t == "list":
                st2.heap.store("$llen", o, st2.heap.sel("$llen", vs[0]))
                st2.heap.store("$litem", o, st2.heap.sel("$litem", vs[0]))
            elif t == "tuple":
                st2.heap.store("$llen", o, smt.tlen(vs[0]))
                arr = z3.Const(fresh_name("l_of_t"), z3.ArraySort(z3.IntSort(), V))
                i = z3.Const(fresh_name("i!lt"), z3.IntSort())
                st2.assume(smt.forall([i], z3.Select(arr, i) == smt.titem(vs[0], i), patterns=[z3.Select(arr, i)]))
                st2.heap.store("$litem", o, arr)
            else:
                hint = self.contract.calls.get("list(%s)" % ast.unparse(a))
                if hint:
                    yield from self.apply_contract(self.get_contract(hint), vs, {}, st2, e, hint)
                    continue
                raise Undecided("list() of %s (static type %s)" % (ast.unparse(a), t))
            yield st2, o, None

    def bi_tuple(self, e, st):
        from .symexec import Undecided
        if not e.args:
            yield st, self.new_tuple(st, []), None
            return
        for st2, vs, x in self._args(e, st):
            if x is not None:
                yield st2, None, x
                continue
            t = self.static_type(e.args[0], st2)
            if t == "list":
                tv = fresh_v("t_of_l")
                st2.assume(smt.typeof(tv) == self.eng.ct.cls("tuple"))
                st2.assume(smt.tlen(tv) == st2.heap.sel("$llen", vs[0]))
                i = z3.Const(fresh_name("i!tl"), z3.IntSort())
                items = st2.heap.sel("$litem", vs[0])
                st2.assume(smt.forall([i], smt.titem(tv, i) == z3.Select(items, i), patterns=[smt.titem(tv, i)]))
                st2.assume(st2.heap.sel("$alloc", tv))
                yield st2, tv, None
            elif t == "tuple":
                yield st2, vs[0], None
            else:
                raise Undecided("tuple() of %s" % t)

    def bi_set(self, e, st):
        from .symexec import Undecided
        if e.args:
            raise Undecided("set(iterable)")
        o = self.alloc(st, "set")
        st.heap.store("$smem", o, z3.K(V, z3.BoolVal(False)))
        yield st, o, None

    def bi_dict(self, e, st):
        from .symexec import Undecided
        if e.args or e.keywords:
            raise Undecided("dict(args)")
        o = self.alloc(st, "dict")
        st.heap.store("$dhas", o, z3.K(V, z3.BoolVal(False)))
        st.heap.store("$olen", o, z3.IntVal(0))
        yield st, o, None

    def bi_OrderedDict(self, e, st):
        o = self.alloc(st, "OrderedDict")
        st.heap.store("$dhas", o, z3.K(V, z3.BoolVal(False)))
        st.heap.store("$olen", o, z3.IntVal(0))
        yield st, o, None

    def bi_globals(self, e, st):
        yield st, smt.const("globals:" + self.module.name), None

    # ---- list methods ------------------------------------------------------
    def list_method(self, e, st):
        from .symexec import Undecided
        m = e.func.attr
        for st2, vs, x in self.ev_list([e.func.value] + list(e.args), st):
            if x is not None:
                yield st2, None, x
                continue
            l = vs[0]
            n = st2.heap.sel("$llen", l)
            items = st2.heap.sel("$litem", l)
            if m == "append":
                self.mark_escapes(st2, [vs[1]])
                st2.heap.store("$litem", l, z3.Store(items, n, vs[1]))
                st2.heap.store("$llen", l, n + 1)
                yield st2, NONE, None
            elif m == "pop" and len(vs) == 1:
                bad = st2.copy()
                bad.assume(n <= 0, "pop from empty list")
                if self.feasible_quick(bad):
                    yield bad, None, self.new_exception(bad, "IndexError")
                st2.assume(n > 0)
                st2.heap.store("$llen", l, n - 1)
                yield st2, z3.Select(items, n - 1), None
            elif m == "clear":
                st2.heap.store("$llen", l, z3.IntVal(0))
                yield st2, NONE, None
            elif m == "copy":
                o = self.alloc(st2, "list")
                st2.heap.store("$llen", o, n)
                st2.heap.store("$litem", o, items)
                yield st2, o, None
            else:
                raise Undecided("list.%s" % m)

    def set_method(self, e, st):
        from .symexec import Undecided
        m = e.func.attr
        for st2, vs, x in self.ev_list([e.func.value] + list(e.args), st):
            if x is not None:
                yield st2, None, x
                continue
            s = vs[0]
            mem = st2.heap.sel("$smem", s)
            if m == "add":
                self.mark_escapes(st2, [vs[1]])
                st2.heap.store("$smem", s, z3.Store(mem, vs[1], z3.BoolVal(True)))
                yield st2, NONE, None
            elif m == "remove":
                bad = st2.copy()
                bad.assume(z3.Not(z3.Select(mem, vs[1])), "L%d: set.remove of a non-member" % e.lineno)
                if self.feasible_quick(bad):
                    yield bad, None, self.new_exception(bad, "KeyError")
                st2.assume(z3.Select(mem, vs[1]))
                st2.heap.store("$smem", s, z3.Store(mem, vs[1], z3.BoolVal(False)))
                yield st2, NONE, None
            elif m == "discard":
                st2.heap.store("$smem", s, z3.Store(mem, vs[1], z3.BoolVal(False)))
                yield st2, NONE, None
            elif m == "clear":
                st2.heap.store("$smem", s, z3.K(V, z3.BoolVal(False)))
                yield st2, NONE, None
            else:
                raise Undecided("set.%s" % m)

    def dict_method(self, e, st):
        from .symexec import Undecided
        m = e.func.attr
        for st2, vs, x in self.ev_list([e.func.value] + list(e.args), st):
            if x is not None:
                yield st2, None, x
                continue
            d = vs[0]
            has = st2.heap.sel("$dhas", d)
            get = st2.heap.sel("$dget", d)
            if m == "get":
                dflt = vs[2] if len(vs) > 2 else NONE
                yield st2, z3.If(z3.Select(has, vs[1]), z3.Select(get, vs[1]), dflt), None
            elif m == "pop":
                k = vs[1]
                present = z3.Select(has, k)
                if len(vs) > 2:
                    a = st2.copy()
                    a.assume(z3.Not(present), "L%d: pop: key absent" % e.lineno)
                    yield a, vs[2], None
                else:
                    a = st2.copy()
                    a.assume(z3.Not(present))
                    yield a, None, self.new_exception(a, "KeyError")
                st2.assume(present, "L%d: pop: key present" % e.lineno)
                v = z3.Select(get, k)
                for st3, x3 in self.dict_del(st2, d, k):
                    if x3 is None:
                        yield st3, v, None
            elif m == "setdefault":
                k = vs[1]
                dflt = vs[2] if len(vs) > 2 else NONE
                present = z3.Select(has, k)
                a = st2.copy()
                a.assume(present)
                yield a, z3.Select(get, k), None
                st2.assume(z3.Not(present))
                for s_ in self.dict_set(st2, d, k, dflt, assume_absent=True):
                    yield s_, dflt, None
            elif m == "clear":
                st2.heap.store("$dhas", d, z3.K(V, z3.BoolVal(False)))
                st2.heap.store("$olen", d, z3.IntVal(0))
                yield st2, NONE, None
            else:
                raise Undecided("dict.%s outside list()/for" % m)


SET_CARD = z3.Function("set_card", z3.ArraySort(V, z3.BoolSort()), z3.IntSort())
CALLABLE = z3.Function("callable", V, z3.BoolSort())
