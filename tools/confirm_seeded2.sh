#!/bin/sh
# confirm a seeded change in a fresh scratch worktree: tests pass with it, demo fails with it, passes without
id=$1
wt=/tmp/wt_confirm_$id
git -C /repo worktree add -q --detach $wt HEAD || exit 2
cd $wt
cp /verif/seeded2/$id/demo.py demo.py
/venv/bin/python demo.py > /dev/null 2>&1; echo "demo_without_patch_rc=$?"
git apply /verif/seeded2/$id/patch.diff || { echo "patch does not apply"; }
/venv/bin/python demo.py > /dev/null 2>&1; echo "demo_with_patch_rc=$?"
/venv/bin/python -m pytest -q -p no:cacheprovider --timeout=900 --deselect asynq/tests/test_pyright.py::test_return_type 2>&1 | tail -1
cd /
git -C /repo worktree remove --force $wt
