"""Shared specification vocabulary: object invariants, two-state invariants,
well-formedness assumptions, environment contracts, diagnostic callees."""
import z3
from pyvc import smt
from pyvc.smt import V, NONE, TRUE, FALSE, NONE_MARK
from pyvc.state import fresh_name
from pyvc.contract import Contract as C


def q(name):
    return z3.Const(fresh_name(name), V)


def register(reg, repo):
    # ---- classes of dependencies that appear in static types -------------
    reg.extra_classes.update({
        "EventHook": ["object"],
        "DecoratorBase": ["object"],
        "DecoratorBinder": ["object"],
        "local": ["object"],
        "Thread": ["object"],
        "ContextVar": ["object"],
        "Token": ["object"],
        "Formatter": ["object"],
        "_patch": ["object"],
        "LRUCache": ["object"],
        "frame": ["object"],
        "traceback": ["object"],
        "coroutine": ["object"],
    })
    reg.pyfuncs["prio"] = _prio
    reg.disjoint_classes += [("Future", "AsyncTask"), ("ConstFuture", "AsyncTask"), ("ErrorFuture", "AsyncTask"),("BatchBase", "BatchItemBase"), ("BatchBase", "AsyncTask"), ("BatchItemBase", "AsyncTask")]
    reg.presence_fields.update({"_task", "_traceback", "asynq", "async", "is_pure_async_fn", "fn",
                                "gi_frame", "_active_task", "value"})

    # ---- globals ------------------------------------------------------------
    reg.global_values["_none"] = lambda eng: NONE_MARK
    reg.global_values["_futures_none"] = lambda eng: NONE_MARK
    reg.global_values[("futures", "_none")] = lambda eng: NONE_MARK
    reg.global_values["futures._none"] = lambda eng: NONE_MARK
    for name in ["_state", "_debug_batch_state", "none_future", "_none_future", "_empty_tuple",
                 "_empty_dictionary", "END_OF_GENERATOR", "_asyncio_mode", "stdout", "stderr", "logger"]:
        reg.global_values[name] = (lambda n: (lambda eng: smt.const("glob:" + n)))(name)
    reg.global_values[("core_events", "sinking_event_hook")] = lambda eng: smt.const("glob:sinking_event_hook")
    reg.global_values["core_events.sinking_event_hook"] = lambda eng: smt.const("glob:sinking_event_hook")

    # ---- object invariants --------------------------------------------------
    def inv_future(eng, heap):
        """I-Fut: an uncomputed future has no error and has not been announced."""
        f = q("f!inv")
        g = z3.And(heap.sel("$alloc", f), eng.isinstance_f(f, [eng.ct.cls("FutureBase")]))
        return [smt.forall([f], z3.Implies(z3.And(g, heap.sel("_value", f) == NONE_MARK),
                                          z3.And(heap.sel("_error", f) == NONE, heap.sel("$n_notified", f) == 0)),
                          patterns=[heap.sel("_value", f)]),
                smt.forall([f], z3.Implies(g, heap.sel("$n_notified", f) >= 0),
                          patterns=[heap.sel("$n_notified", f)])]
    reg.inv_hooks.append(inv_future)

    def inv_item(eng, heap):
        """I-Item: while an (initialised) item is uncomputed it sits in its batch's list at its index."""
        x = q("it!inv")
        g = z3.And(heap.sel("$alloc", x), eng.isinstance_f(x, [eng.ct.cls("BatchItemBase")]))
        b = heap.sel("batch", x)
        items = heap.sel("items", b)
        idx = smt.int_of(heap.sel("index", x))
        return [smt.forall([x], z3.Implies(z3.And(g, b != NONE, heap.sel("_value", x) == NONE_MARK),
                                          z3.And(0 <= idx, idx < heap.sel("$llen", items),
                                                 z3.Select(heap.sel("$litem", items), idx) == x)),
                          patterns=[heap.sel("_value", x), heap.sel("batch", x)])]
    reg.inv_hooks.append(inv_item)

    def inv_batch(eng, heap):
        """I-Batch: the members of b.items are items of b; once b has been announced they are all computed;
        two batches never share an items list."""
        b = q("b!inv")
        j = z3.Int(fresh_name("j!inv"))
        g = z3.And(heap.sel("$alloc", b), eng.isinstance_f(b, [eng.ct.cls("BatchBase")]))
        items = heap.sel("items", b)
        it = z3.Select(heap.sel("$litem", items), j)
        inr = z3.And(0 <= j, j < heap.sel("$llen", items))
        b2 = q("b2!inv")
        g2 = z3.And(heap.sel("$alloc", b2), eng.isinstance_f(b2, [eng.ct.cls("BatchBase")]))
        return [smt.forall([b, j], z3.Implies(z3.And(g, inr),
                                             z3.And(heap.sel("$alloc", it), eng.isinstance_f(it, [eng.ct.cls("BatchItemBase")]),
                                                    heap.sel("batch", it) == b)),
                          patterns=[z3.Select(heap.sel("$litem", heap.sel("items", b)), j)]),
                smt.forall([b, j], z3.Implies(z3.And(g, inr, heap.sel("$n_notified", b) >= 1),
                                             heap.sel("_value", it) != NONE_MARK),
                          patterns=[z3.Select(heap.sel("$litem", heap.sel("items", b)), j)]),
                smt.forall([b, b2], z3.Implies(z3.And(g, g2, b != b2), heap.sel("items", b) != heap.sel("items", b2)),
                          patterns=[z3.MultiPattern(heap.sel("items", b), heap.sel("items", b2))])]
    reg.inv_hooks.append(inv_batch)

    def fresh_future(eng, st, o, clsname):
        # modelling choice: the (unreadable) fields of a not-yet-initialised future are the pending defaults
        if eng.ct.is_sub(clsname, "FutureBase"):
            st.heap.store("_value", o, NONE_MARK)
            st.heap.store("_error", o, NONE)
            st.heap.store("$n_notified", o, z3.IntVal(0))
        if eng.ct.is_sub(clsname, "BatchItemBase"):
            st.heap.store("batch", o, NONE)     # cdef object fields start as None
    reg.fresh_hooks.append(fresh_future)

    # ---- two-state invariants (E2) -------------------------------------------
    def ts_alloc(eng, old, new, skip=()):
        x = q("x!ts")
        return [smt.forall([x], z3.Implies(old.sel("$alloc", x), new.sel("$alloc", x)),
                          patterns=[new.sel("$alloc", x)])]

    def ts_future(eng, old, new, skip=()):
        """T1: a computed future stays computed with the identical value / error; it is not announced again
        and its flush body does not run again."""
        f = q("f!t1")
        body = [new.sel("_value", f) == old.sel("_value", f),
                new.sel("_error", f) == old.sel("_error", f),
                new.sel("$n_flush_body", f) == old.sel("$n_flush_body", f)]
        if "notif" not in skip:
            body.append(new.sel("$n_notified", f) == old.sel("$n_notified", f))
        return [smt.forall([f], z3.Implies(
            z3.And(old.sel("$alloc", f), eng.isinstance_f(f, [eng.ct.cls("FutureBase")]),
                   old.sel("_value", f) != NONE_MARK),
            z3.And(*body)),
            patterns=[new.sel("_value", f)])]

    def ts_announced(eng, old, new, skip=()):
        """T4: a future completed by a public operation has been announced by the time that operation returns."""
        f = q("f!t4")
        return [smt.forall([f], z3.Implies(
            z3.And(old.sel("$alloc", f), eng.isinstance_f(f, [eng.ct.cls("FutureBase")]),
                   old.sel("_value", f) == NONE_MARK, new.sel("_value", f) != NONE_MARK),
            new.sel("$n_notified", f) >= 1),
            patterns=[new.sel("$n_notified", f)])]

    def ts_flushbody(eng, old, new, skip=()):
        """T5: a batch that is still pending after an operation has not had its flush body run by it."""
        if "flushbody" in skip:
            return []
        f = q("f!t5")
        return [smt.forall([f], z3.Implies(
            z3.And(old.sel("$alloc", f), eng.isinstance_f(f, [eng.ct.cls("BatchBase")]),
                   new.sel("_value", f) == NONE_MARK),
            new.sel("$n_flush_body", f) == old.sel("$n_flush_body", f)),
            patterns=[new.sel("$n_flush_body", f)])]

    def ts_batch(eng, old, new, skip=()):
        """T3: a batch keeps its items list object; while a batch is computed but not yet announced
        (its items are being completed) nobody adds to or clears the list."""
        b = q("b!t3")
        g = z3.And(old.sel("$alloc", b), eng.isinstance_f(b, [eng.ct.cls("BatchBase")]))
        items = old.sel("items", b)
        it = q("it!t6")
        gi = z3.And(old.sel("$alloc", it), eng.isinstance_f(it, [eng.ct.cls("BatchItemBase")]))
        return [smt.forall([it], z3.Implies(gi, new.sel("batch", it) == old.sel("batch", it)),
                          patterns=[new.sel("batch", it)]),
                smt.forall([b], z3.Implies(g, z3.And(new.sel("items", b) == items,
                                                    z3.Implies(old.sel("$b_switched", b), new.sel("$b_switched", b)))),
                          patterns=[new.sel("items", b), old.sel("items", b)]),
                smt.forall([b], z3.Implies(z3.And(g, old.sel("_value", b) != NONE_MARK, old.sel("$n_notified", b) == 0),
                                          z3.And(new.sel("$llen", items) == old.sel("$llen", items),
                                                 new.sel("$litem", items) == old.sel("$litem", items))),
                          patterns=[new.sel("$llen", old.sel("items", b)), old.sel("$llen", old.sel("items", b)),
                                    new.sel("$litem", old.sel("items", b)), old.sel("$n_notified", b)])]
    reg.two_state_hooks.append(ts_alloc)
    reg.two_state_hooks.append(ts_future)
    reg.two_state_hooks.append(ts_batch)
    reg.two_state_hooks.append(ts_announced)
    reg.two_state_hooks.append(ts_flushbody)

    # ---- well-formedness assumptions from the .pxd types ----------------------
    # Facts about one field array (entry / havocked arrays only; our own stores are not covered):
    # attached to an obligation only when that array occurs in it.
    typed = {}
    for mod, pxd in repo.pxd.items():
        for (cls, field), ctype in pxd.fields.items():
            t = ctype.split(".")[-1]
            if t in ("list", "set", "bint"):
                typed.setdefault(field, []).append((cls, t))

    def array_facts(eng, field, a):
        out = []
        x = q("x!wf")
        for cls, t in typed.get(field, []):
            if not eng.ct.known(cls):
                continue
            guard = eng.isinstance_f(x, [eng.ct.cls(cls)])
            v = z3.Select(a, x)
            body = V.is_bval(v) if t == "bint" else smt.typeof(v) == eng.ct.cls(t)
            out.append(smt.forall([x], z3.Implies(guard, body), patterns=[z3.Select(a, x)]))
        if field == "batch":
            v = z3.Select(a, x)
            out.append(smt.forall([x], z3.Implies(eng.isinstance_f(x, [eng.ct.cls("BatchItemBase")]),
                                                 z3.Or(v == NONE, eng.isinstance_f(v, [eng.ct.cls("BatchBase")]))),
                                 patterns=[z3.Select(a, x)]))
        import re as _re
        m = _re.match(r"^(.*)@(\d+)$", a.decl().name())
        if m and field in ("batch", "items", "_tasks", "_batches", "_dependencies", "active_task", "current", "_contexts"):
            # reachable values exist: alloc at the same epoch (entry / whole-heap havoc arrays only)
            from pyvc.state import AVB
            al = z3.Const("$alloc@%s" % m.group(2), AVB)
            out.append(smt.forall([x], z3.Implies(z3.Select(al, x), z3.Select(al, z3.Select(a, x))),
                                 patterns=[z3.Select(a, x)]))
        if field in ("$llen", "$olen"):
            out.append(smt.forall([x], z3.Select(a, x) >= 0, patterns=[z3.Select(a, x)]))
        if field == "$alloc":
            # ints, bools, None and the named constants (classes, markers, globals) always exist
            out.append(smt.forall([x], z3.Implies(z3.Or(z3.Not(V.is_obj(x)), V.oid(x) < 0), z3.Select(a, x)),
                                 patterns=[z3.Select(a, x)]))
        return out
    reg.array_hooks.append(array_facts)

    # ---- diagnostic callees: total, no effect on the heap ---------------------
    # (their own bodies are verified against these contracts in contracts/debug_c.py)
    for name, params, rt in [
        ("env.diag", ["*args", "**kwargs"], None),
        ("env.diag_str", ["*args", "**kwargs"], "str"),
    ]:
        reg.add(C(name, params=params, modifies=[], post=[], xpost=None, trusted=True, returns_type=rt,
                  note="diagnostic sink: total, touches only stdout/stderr"))
    reg.global_calls["sys.exc_info"] = "env.exc_info"
    for text in ["traceback.print_exc", "stdout.flush", "stderr.flush", "stdout.write", "stderr.write",
                 "print"]:
        reg.global_calls[text] = "env.diag"

    # qcore.errors
    reg.add(C("qcore.errors.reraise", params=["error"], modifies=[], post=["False"], xpost=["exc is error"],
              trusted=True, note="qcore.errors.reraise raises its argument (with its stored traceback)"))
    reg.add(C("qcore.errors.prepare_for_reraise", params=["error", "exc_info"], defaults={"exc_info": "None"},
              modifies=["_traceback", "_type_", "$has:_traceback"], post=["hasattr(error, '_traceback')",
              "only(error, '_traceback', '_type_', '$has:_traceback')"], xpost=None, trusted=True,
              note="qcore.errors.prepare_for_reraise stores error._traceback/_type_"))

    # qcore.events.EventHook
    notif_post = ["arg.$n_notified == old(arg.$n_notified) + 1",
                  "all(implies(old(alloc(f)) and old(computed(f)) and f is not arg, f.$n_notified == old(f.$n_notified)) for f in objs(FutureBase))"]
    reg.macro("items_done", ["b"], "all(computed(b.items[j]) for j in range(0, len(b.items)))")
    reg.macro("in_window", ["f"], "(not computed(f)) and isinstance(f, BatchItemBase) and (f.batch is None or computed(f.batch))")
    reg.add(C("EventHook.safe_trigger", params=["self", "arg"], modifies="*", trusted=True,
              requires=["implies(isinstance(arg, BatchBase), items_done(arg))"],
              post=notif_post, xpost=notif_post + ["isinstance(exc, Exception)"],
              labels={"ts_skip": ("notif",)},
              note="qcore EventHook.safe_trigger: calls every handler once, then re-raises the first error; "
                   "handlers are unknown code (E1/E2); handlers raise only Exception (assumed)"))
    reg.add(C("EventHook.trigger", params=["self", "arg"], modifies="*", trusted=True,
              post=[], xpost=["True"], note="EventHook.trigger: stops at the first failing handler"))
    reg.add(C("EventHook.__call__", params=["self", "arg"], modifies="*", trusted=True,
              post=[], xpost=["True"], note="EventHook() = trigger"))
    reg.add(C("EventHook.subscribe", params=["self", "handler"], modifies=["$subs"], trusted=True,
              post=[], xpost=None))

    # calling an unknown function value (value providers, user callbacks)
    reg.add(C("env.call0", params=["fn"], kind="callvalue", modifies="*", trusted=True,
              post=["fn.$n_calls == old(fn.$n_calls) + 1", "result is not _none"], xpost=["fn.$n_calls == old(fn.$n_calls) + 1"],
              note="unknown callable: arbitrary code under E1/E2; ghost $n_calls counts invocations"))


PRIO = None


def _prio(specenv, b):
    """prio(b): the value b.get_priority() returns while the scheduler selects a batch.  Assumption: user
    get_priority() is pure and deterministic and no batch changes during one selection, so within
    _select_batch_to_flush it is a function of the batch alone."""
    global PRIO
    import z3 as _z3
    from pyvc.smt import V as _V
    if PRIO is None:
        PRIO = _z3.Function("prio", _V, _V)
    return PRIO(b)
