"""Bounded stand-ins (labelled bounded; never counted as proved)."""


def run(sb, pid, tier, seed):
    raise NotImplementedError(sb)
