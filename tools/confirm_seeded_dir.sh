#!/bin/sh
# confirm a seeded change in a fresh scratch worktree: tests pass with it, demo fails with it, passes without
# usage: tools/confirm_seeded_dir.sh <seeded dir> <id>
dir=$1; id=$2
wt=/tmp/wt_confirm_$id
git -C /repo worktree add -q --detach $wt HEAD || exit 2
cd $wt
cp $dir/$id/demo.py demo.py
timeout 300 /venv/bin/python demo.py > /dev/null 2>&1; a=$?
git apply $dir/$id/patch.diff || echo "patch does not apply"
timeout 300 /venv/bin/python demo.py > /dev/null 2>&1; b=$?
t=$(/venv/bin/python -m pytest -q -p no:cacheprovider --timeout=900 --deselect asynq/tests/test_pyright.py::test_return_type 2>&1 | tail -1)
echo "$id demo_without=$a demo_with=$b tests: $t"
cd /
git -C /repo worktree remove --force $wt
