"""C18: totality of str / repr / dump (the bodies of the diagnostic callees that every other contract uses as
'total, effect-free on the asynq heap').  xpost=None = raises nothing for every state satisfying the invariants;
attribute reads are checked against the fields the class defines."""
from pyvc.contract import Contract as C


def untrust(reg, name, **kw):
    c = reg.contracts[name]
    c.trusted = False
    for k, v in kw.items():
        if k == "calls":
            c.calls.update(v)
        elif k == "labels":
            c.labels.update(v)
        else:
            setattr(c, k, v)
    return c


def register(reg, repo):
    reg.add(C("env.safe_str", params=["source", "max_length"], defaults={"max_length": "0"}, modifies=[], trusted=True, post=[], xpost=None,
              returns_type="str", note="qcore.safe_str / safe_repr: total by construction (catch-all inside)"))
    reg.add(C("env.getframeinfo", params=["frame"], modifies=[], trusted=True, post=[], xpost=["isinstance(exc, Exception)"],
              note="inspect.getframeinfo may fail for exotic frames: AsyncTask.traceback catches Exception"))
    reg.add(C("env.str.method", params=["self", "*args"], kind="method", modifies=[], trusted=True, post=[], xpost=None, returns_type="str"))

    # ---- debug.py ------------------------------------------------------------------------------------------
    untrust(reg, "debug.write", calls={"text.replace": "env.str.method", "text.startswith": "env.str.method", "stdout.write": "env.diag"},
            types={"text": "str", "indent_str": "str", "indent": "int"}, labels={"intcmp": True})
    untrust(reg, "debug.str", calls={"qcore.safe_str": "env.safe_str"}, labels={"noattrcheck": True})
    untrust(reg, "debug.repr", calls={"qcore.safe_repr": "env.safe_str"}, labels={"noattrcheck": True})

    # ---- futures --------------------------------------------------------------------------------------------
    reg.add(C("futures.FutureBase.__repr__", modifies=["_in_repr"], types={"status": "str"},
              requires=["not in_window(self)"],
              post=["only(self, '_in_repr')"], xpost=None, returns_type="str",
              labels={("xpost", 0): "repr-never-raises"},
              note="value()/error() are only reached when the future is computed (no computation is started by repr)"))
    reg.add(C("futures.FutureBase.dump", modifies=[], post=[], xpost=None))

    # ---- batching ----------------------------------------------------------------------------------------------
    reg.add(C("batching.BatchBase.__str__", modifies=[], post=[], xpost=None, returns_type="str",
              calls={"core_inspection.get_full_name": "qcore.inspection.get_full_name"}))
    reg.add(C("batching.BatchBase.to_str", modifies=[], post=[], xpost=None, returns_type="str",
              calls={"str": "env.safe_str"}))
    reg.add(C("batching.BatchItemBase.to_str", modifies=[], post=[], xpost=None, returns_type="str", calls={"str": "env.safe_str"}))
    reg.add(C("batching.BatchItemBase.dump!virtual", params=["self", "indent"], defaults={"indent": "0"}, kind="method", modifies=[],
              trusted=True, post=[], xpost=None, note="FutureBase.dump and its overrides"))
    untrust(reg, "batching.BatchBase.dump", calls={"item.dump": "batching.BatchItemBase.dump!virtual"},
            types={"item": "BatchItemBase"}, invariants={1: ["True"]})

    # ---- scheduler ------------------------------------------------------------------------------------------------
    reg.add(C("scheduler.TaskScheduler.__str__", modifies=[], post=[], xpost=None, returns_type="str",
              calls={"str": "env.safe_str", "repr": "env.safe_str"}))
    reg.add(C("scheduler.TaskScheduler.__repr__", modifies=[], post=[], xpost=None, returns_type="str"))

    # ---- scoped values ------------------------------------------------------------------------------------------------
    for n in ("AsyncScopedValue.__str__", "AsyncScopedValue.__repr__", "_AsyncScopedValueOverrideContext.__repr__",
              "_AsyncPropertyOverrideContext.__repr__"):
        reg.add(C("scoped_value." + n, modifies=[], post=[], xpost=None, returns_type="str",
                  calls={"str": "env.safe_str", "repr": "env.safe_str"}))

    # ---- tasks ------------------------------------------------------------------------------------------------------
    T = "async_task.AsyncTask."
    reg.add(C(T + "__str__", modifies=[], post=[], xpost=None, returns_type="str", types={"status": "str", "step": "str", "name": "str"},
              requires=["not in_window(self)"],
              calls={"core_inspection.get_function_call_str": "qcore.inspection.get_function_call_str", "repr": "env.safe_str"},
              labels={"intcmp": True}))
    reg.add(C(T + "to_str", modifies=["_name"], post=[], xpost=None, returns_type="str",
              calls={"core_inspection.get_full_name": "qcore.inspection.get_full_name"},
              labels={"format_user_repr": True, ("xpost", 0): "name-never-raises-even-if-an-argument-repr-does"},
              note="%r of the task's args/kwargs runs user __repr__ code, modelled as raising any Exception (label format_user_repr): "
                   "the task's name is computed by profiling (COLLECT_PERF_STATS) and by every dump, so it must not fail when an "
                   "argument's repr does"))
    reg.add(C(T + "dump!virtual", params=["self", "indent"], defaults={"indent": "0"}, kind="method", modifies=[], trusted=True,
              post=[], xpost=None, note="dump of a dependency (recursion depth bounded by MAX_DUMP_INDENT)"))
    reg.add(C(T + "dump", modifies=[], post=[], xpost=None, types={"dependency": "FutureBase", "indent": "int"},
              calls={"dependency.dump": T + "dump!virtual"}, invariants={1: ["True"]}, labels={"intcmp": True}))
    reg.add(C(T + "_traceback_line", modifies=[], post=[], xpost=["isinstance(exc, Exception)"], returns_type="str",
              calls={"inspect.getframeinfo": "env.getframeinfo", "str": "env.safe_str",
                     "'\\n'.join(frame_info.code_context).strip": "env.str.method", "'\\n'.join": "env.str.method",
                     '"""File "%(file)s", line %(lineno)s, in %(funcname)s\n    %(codeline)s""".__mod__': "env.diag_str"},
              labels={"noattrcheck": True}))
    reg.add(C(T + "traceback!rec", params=["self"], kind="method", modifies=["$alloc"], trusted=True, labels={"keeps_inv": True},
              post=["exact(result, list)", "fresh(result)"], xpost=None, returns_type="list",
              note="recursive call on the creator (creator chains are finite: partial correctness)"))
    reg.add(C(T + "traceback", modifies=["$alloc"], post=["exact(result, list)", "len(result) >= 1"], xpost=None, returns_type="list",
              inv_exit=False, two_state=False,
              calls={"self.creator.traceback": T + "traceback!rec", "core_helpers.safe_str": "env.safe_str"},
              types={"result": "list"},
              labels={("xpost", 0): "traceback-never-raises", ("post", 1): "lists-the-task-itself-last"}))
    untrust(reg, "scheduler.TaskScheduler.dump", calls={"task.dump": T + "dump!virtual", "batch.dump": "batching.BatchItemBase.dump!virtual"},
            types={"task": "FutureBase", "batch": "BatchBase"}, invariants={1: ["True"], 2: ["True"]})

    # ---- debug.py: error formatting and the asynq stack --------------------------------------------------------------
    for flag in ("_use_syntax_highlighting", "_should_filter_traceback", "_use_original_exc_handler"):
        reg.global_values[("debug", flag)] = (lambda n: (lambda eng: __import__("pyvc.smt", fromlist=["x"]).const("glob:debug." + n)))(flag)
    reg.add(C("env.traceback.format", params=["*args", "**kwargs"], modifies=["$alloc"], trusted=True, labels={"keeps_inv": True},
              post=["exact(result, list)", "fresh(result)"], xpost=None, returns_type="list",
              note="traceback.format_exception / format_exception_only / format_list: total for exception objects"))
    reg.add(C("env.str.join", params=["self", "parts"], kind="method", modifies=[], trusted=True, post=["exact_str(result)"], xpost=None,
              returns_type="str"))
    reg.pyfuncs["exact_str"] = lambda env, v: __import__("z3").BoolVal(True)
    reg.add(C("env.str.splitlines", params=["self", "keepends"], kind="method", modifies=["$alloc"], trusted=True,
              labels={"keeps_inv": True}, post=["exact(result, list)", "fresh(result)"], xpost=None, returns_type="list"))
    reg.add(C("debug.syntax_highlight_tb", modifies=[], trusted=True, post=[], xpost=None, returns_type="str",
              note="pygments highlight: assumed total"))
    reg.add(C("debug.format_error", modifies=["$alloc"],
              types={"tb_list": "list", "tb_text": "str", "result": "str"},
              calls={"traceback.format_exception": "env.traceback.format", "traceback.format_exception_only": "env.traceback.format",
                     "''.join": "env.str.join", "tb_text.decode": "env.str.method", "tb_text.splitlines": "env.str.splitlines",
                     "''.join(filter_traceback(tb_text.splitlines(True)))": "env.str.join"},
              labels={"noattrcheck": True, ("post", 0): "none-for-no-error", ("xpost", 0): "format_error-never-raises"},
              post=["implies(error is None, retval is None)"], xpost=None,
              inv_exit=False, two_state=False,
              note="accepts any exception with or without traceback; isinstance(tb_text, bytes) is a Python-2 remnant"))
    reg.add(C("debug.format_asynq_stack", modifies=["$alloc"],
              calls={"get_scheduler": "scheduler.get_scheduler", "active_task.traceback": "async_task.AsyncTask.traceback"},
              types={"active_task": "AsyncTask"}, labels={"noattrcheck": True, "nullable:active_task": True},
              post=["True"], xpost=None, inv_exit=False, two_state=False))
