"""Scenario battery for the helpers in tools.py / generator.py (C12, C13, C14, C17)."""
import itertools
import random
from scenarios import scenario, fail


def _reset():
    from asynq import scheduler, batching
    scheduler.reset()
    batching._debug_batch_state.batches.clear()


# ---------------------------------------------------------------------------
# C12 deduplicate

@scenario(["tools.DeduplicateDecorator", "tools.deduplicate"], ["C12"])
def dedup_in_flight_sharing(req):
    """Calls of a @deduplicate() function with the same key (all spellings: positional, keyword, defaults, keyword-only) while the first is in flight return the same task (same yield, later step while blocked); different keys / functions / instances never share; after completion or dirty() the body runs again."""
    from asynq import asynq as A, batching
    from asynq.tools import deduplicate
    runs = []

    @deduplicate()
    @A()
    def f(a, b=2, *, fresh=False):
        runs.append(("f", a, b, fresh))
        r = yield batching.DebugBatchItem("k", (a, b, fresh))
        return r

    @deduplicate()
    @A()
    def g(a, b=2, *, fresh=False):
        runs.append(("g", a, b, fresh))
        r = yield batching.DebugBatchItem("k", ("g", a, b, fresh))
        return r

    class K:
        def __init__(self, n):
            self.n = n

        @deduplicate()
        @A()
        def m(self, a, b=0):
            runs.append(("m", self.n, a, b))
            r = yield batching.DebugBatchItem("k", (self.n, a, b))
            return r
    same_key = [lambda: f.asynq(7), lambda: f.asynq(7, 2), lambda: f.asynq(a=7), lambda: f.asynq(7, b=2),
                lambda: f.asynq(7, fresh=False), lambda: f.asynq(a=7, b=2, fresh=False), lambda: f.asynq(b=2, a=7)]
    other_key = [lambda: f.asynq(8), lambda: f.asynq(7, 3), lambda: f.asynq(7, fresh=True), lambda: g.asynq(7)]
    for c1, c2 in itertools.product(same_key, same_key):
        _reset()
        del runs[:]

        @A()
        def same_yield():
            t1, t2 = c1(), c2()
            r = yield t1, t2
            return t1 is t2, r
        shared, r = same_yield()
        if not shared or len(runs) != 1 or r[0] != r[1]:
            return fail("two spellings of the same arguments in one yield must share one task and run the body once",
                        shared=shared, body_runs=len(runs), results=repr(r))
    for c2 in other_key:
        _reset()
        del runs[:]

        @A()
        def diff():
            t1, t2 = f.asynq(7), c2()
            r = yield t1, t2
            return t1 is t2, r
        shared, r = diff()
        if shared or len(runs) != 2 or r[0] == r[1]:
            return fail("calls that differ in a parameter (or function) shared a task", body_runs=len(runs), results=repr(r))
    # later step while the first is still blocked; after completion; after dirty()
    _reset()
    del runs[:]

    @A()
    def later():
        t1 = f.asynq(1)

        @A()
        def second_step():
            yield batching.DebugBatchItem("other", 0)   # one flush of another kind first
            t2 = f.asynq(1, fresh=False)
            r = yield t2
            return t2, r

        @A()
        def hold():
            yield batching.DebugBatchItem("other", 1)
            yield batching.DebugBatchItem("k2", 1)
            r = yield t1
            return r
        (t2, r2), r1 = yield second_step.asynq(), hold.asynq()
        after = f.asynq(1)
        r3 = yield after
        return t1 is t2, after is t1, (r1, r2, r3)
    # make 'other' flush before 'k' by priority: other has 2 items vs k 1
    shared, again_same, rs = later()
    if not shared or len([x for x in runs if x[0] == "f"]) != 2 or again_same:
        return fail("a call issued in a later step while the first is blocked must get the same task; after completion the body runs again",
                    shared_while_blocked=shared, reused_after_completion=again_same, body_runs=len(runs))
    _reset()
    del runs[:]

    @A()
    def dirty_case():
        t1 = f.asynq(5)
        f.dirty(5)
        t2 = f.asynq(5)
        r = yield t1, t2
        return t1 is t2, r
    shared, r = dirty_case()
    if shared or len(runs) != 2:
        return fail("after dirty() the next call must run the body again", shared=shared, body_runs=len(runs))
    # completion of an older task (dropped by dirty()) must not unregister the newer in-flight task
    _reset()
    del runs[:]

    @A()
    def older_completes():
        t1 = f.asynq(6)
        f.dirty(6)
        t2 = f.asynq(6)          # newer task registered under the same key

        @A()
        def slow_second():
            r = yield t2
            return r
        yield t1                  # t1 completes; t2 (same batch) too, so use a fresh key ordering below
        return t1 is t2
    older_completes()

    class Hold(batching.BatchBase):
        def _try_switch_active_batch(self):
            pass

        def _flush(self):
            for it in self.items:
                it.set_value("held")

    class HoldItem(batching.BatchItemBase):
        pass
    hold = {"n": 0}

    @deduplicate()
    @A()
    def h(x):
        hold["n"] += 1
        if hold["n"] == 2:
            r = yield HoldItem(Hold())      # the second execution blocks on its own batch
        else:
            r = yield batching.DebugBatchItem("k", x)
        return r
    _reset()
    t1 = h.asynq(1)
    h.dirty(1)
    t2 = h.asynq(1)
    t1.value()                              # the older task completes; its callback runs
    t3 = h.asynq(1)                         # t2 is still in flight (never started / blocked)
    if t2.is_computed():
        pass
    elif t3 is not t2:
        return fail("completion of an older task removed the newer in-flight task registered under the same key "
                    "(a further call created a third task while the second was not complete)")
    # a body that synchronously re-requests its own key while running (escape hatch) must not displace itself
    _reset()
    body_runs = []

    @deduplicate()
    @A()
    def rec(x, depth=0):
        body_runs.append(depth)
        if depth == 0:
            inner_t = rec.asynq(x)              # same key while this task is running: a fresh, unregistered task
            body_runs.append(("inner is outer", inner_t is outer_holder.get("t")))
        r = yield batching.DebugBatchItem("k", x)
        return r
    outer_holder = {}

    @A()
    def filler():
        yield batching.DebugBatchItem("first", 0)
        yield batching.DebugBatchItem("first", 1)
        return 0

    @A()
    def recursion_case():
        t1 = rec.asynq(9)
        outer_holder["t"] = t1

        @A()
        def starts_t1():
            r = yield t1
            return r

        @A()
        def later_caller():
            # two rounds in which batch kind 'first' is the largest: t1 (1 item of kind 'k') stays blocked meanwhile
            yield batching.DebugBatchItem("first", 0)
            yield batching.DebugBatchItem("first", 1)
            pending = not t1.is_computed()
            t2 = rec.asynq(9)
            return (pending, t2 is t1)
        res = yield [starts_t1.asynq(), later_caller.asynq(), filler.asynq(), filler.asynq(), filler.asynq()]
        return res[1]
    pending, shared = recursion_case()
    if pending and not shared:
        return fail("after a synchronous self-request inside the running body, a later caller no longer gets the in-flight outer task",
                    body_runs=repr(body_runs))
    # methods: same instance shares, different instances do not
    _reset()
    del runs[:]
    k1, k2 = K(1), K(2)

    @A()
    def methods():
        a, b, c = k1.m.asynq(3), k1.m.asynq(a=3, b=0), k2.m.asynq(3)
        r = yield a, b, c
        return a is b, a is c, r
    s_same, s_diff, r = methods()
    if not s_same or s_diff or len(runs) != 2 or r != ((1, 3, 0), (1, 3, 0), (2, 3, 0)):
        return fail("method deduplication: same instance must share, different instances must not", same=s_same,
                    across_instances=s_diff, runs=list(runs), results=repr(r))
    # errors are shared too
    _reset()

    @deduplicate()
    @A()
    def bad(x):
        yield batching.DebugBatchItem("k", x)
        raise KeyError(x)

    @A()
    def errs():
        t1, t2 = bad.asynq(1), bad.asynq(x=1)
        out = []
        for t in (t1, t2):
            try:
                yield t
            except KeyError as e:
                out.append(e)
        return t1 is t2 and len(out) == 2 and out[0] is out[1]
    if not errs():
        return fail("all callers of a deduplicated failing call must receive the same error")
    return None


@scenario(["tools.DeduplicateDecorator"], ["C12", "C16"])
def dedup_threads(req):
    """Two threads calling the same @deduplicate() function with equal arguments while the first thread's task is still pending get different tasks and each runs its own body; within one thread the pending task is shared."""
    import threading
    from asynq import asynq as A, batching
    from asynq.tools import deduplicate
    runs = []

    @deduplicate()
    @A()
    def f(x):
        runs.append(threading.current_thread().name)
        r = yield batching.DebugBatchItem("k", x)
        return (threading.current_thread().name, r)
    got = {}

    def in_thread(name, fn):
        th = threading.Thread(target=fn, name=name)
        th.start()
        th.join(20)

    def t1_create():
        got["t1_task"] = f.asynq(1)          # created, still pending (not run yet)
        got["t1_again"] = f.asynq(x=1)
    in_thread("T1", t1_create)

    def t2_create_and_run():
        t = f.asynq(1)
        got["t2_task"] = t
        got["t2_value"] = t.value()
    in_thread("T2", t2_create_and_run)
    if got["t1_task"] is not got["t1_again"]:
        return fail("within one thread the pending task must be shared")
    if got["t2_task"] is got["t1_task"]:
        return fail("a thread was handed another thread's pending deduplicated task")
    if got.get("t2_value") != ("T2", 1) or runs != ["T2"]:
        return fail("the second thread's call did not run its own body on its own thread", value=repr(got.get("t2_value")), body_ran_on=list(runs))
    return None


# ---------------------------------------------------------------------------
# C13 caches

@scenario(["tools.alru_cache", "tools.acached_per_instance", "tools.alazy_constant"], ["C13"])
def caches_reference_model(req):
    """Random call histories over small key spaces, with every spelling of the same arguments, raising bodies, several maxsize values and instances, against a reference cache keyed on the normalised arguments."""
    from asynq import asynq as A, batching, tools
    import asynq.tools as T
    seed = int((req or {}).get("seed", 0) or 0)
    rnd = random.Random(1234 + seed)
    for maxsize in (1, 2, 3, 128):
        calls = []

        @tools.alru_cache(maxsize=maxsize)
        @A()
        def f(a, b=0, *, c=0):
            calls.append((a, b, c))
            if a == 9:
                raise KeyError(a)
            r = yield batching.DebugBatchItem("k", (a, b, c, len(calls)))
            if a == 3:
                return None            # a body may legitimately return None (or another falsy value): still cached
            return r
        ref = []     # list of (key, value), most recently used last
        spell = [lambda a, b, c: f(a, b, c=c), lambda a, b, c: f(a, b=b, c=c), lambda a, b, c: f(a=a, b=b, c=c),
                 lambda a, b, c: (f(a) if (b, c) == (0, 0) else f(a, b, c=c)),
                 lambda a, b, c: (f(a, b) if c == 0 else f(a, c=c, b=b))]
        for step in range(120):
            a, b, c = rnd.choice([1, 2, 3, 9]), rnd.choice([0, 1]), rnd.choice([0, 1])
            key = (a, b, c)
            _reset()
            before = len(calls)
            try:
                got = ("val", rnd.choice(spell)(a, b, c))
            except KeyError:
                got = ("exc", None)
            hit = [kv for kv in ref if kv[0] == key]
            if hit:
                if got != ("val", hit[0][1]) or len(calls) != before:
                    return fail("alru_cache: a hit must return the stored value without running the body", key=key, got=repr(got),
                                stored=repr(hit[0][1]), body_ran=len(calls) != before, maxsize=maxsize, step=step)
                ref.remove(hit[0]); ref.append(hit[0])
            else:
                if len(calls) != before + 1:
                    return fail("alru_cache: a miss must run the body exactly once", key=key, maxsize=maxsize, step=step)
                if a == 9:
                    if got[0] != "exc":
                        return fail("alru_cache: raising body must propagate")
                else:
                    if got[0] != "val" or (a != 3 and got[1][:3] != key) or (a == 3 and got[1] is not None):
                        return fail("alru_cache: a call received another call's value", key=key, got=repr(got), maxsize=maxsize)
                    ref.append((key, got[1]))
                    if len(ref) > maxsize:
                        ref.pop(0)
    # per-instance
    calls = []

    class K:
        def __init__(self, n):
            self.n = n

        @tools.acached_per_instance()
        @A()
        def m(self, a, b=0, *, c=0):
            calls.append((self.n, a, b, c))
            if a == 9:
                raise KeyError(a)
            r = yield batching.DebugBatchItem("k", (self.n, a, b, c, len(calls)))
            return r
    objs = [K(0), K(1)]
    ref = {}
    for step in range(150):
        o = rnd.choice(objs)
        a, b, c = rnd.choice([1, 2, 9]), rnd.choice([0, 1]), rnd.choice([0, 1])
        key = (o.n, a, b, c)
        _reset()
        before = len(calls)
        try:
            sp = rnd.randrange(3)
            got = ("val", o.m(a, b, c=c) if sp == 0 else o.m(a=a, b=b, c=c) if sp == 1 else (o.m(a) if (b, c) == (0, 0) else o.m(a, c=c, b=b)))
        except KeyError:
            got = ("exc", None)
        if key in ref:
            if got != ("val", ref[key]) or len(calls) != before:
                return fail("acached_per_instance: hit must return the stored value without running the body", key=key, got=repr(got))
        else:
            if len(calls) != before + 1:
                return fail("acached_per_instance: miss must run the body once", key=key)
            if a != 9:
                if got[0] != "val" or got[1][:4] != key:
                    return fail("acached_per_instance: a call received another call's / instance's value", key=key, got=repr(got))
                ref[key] = got[1]
    cache = K.m.__acached_per_instance_cache__ if hasattr(K.m, "__acached_per_instance_cache__") else None
    # lazy constant with a stubbed clock
    clock = [1000]
    old_utime = T.utime
    T.utime = lambda: clock[0]
    try:
        for ttl in (0, 100):
            n = [0]
            fail_next = [False]

            @tools.alazy_constant(ttl=ttl)
            @A()
            def const():
                n[0] += 1
                if fail_next[0]:
                    raise KeyError("body")
                r = yield batching.DebugBatchItem("k", n[0])
                return r
            expect_val, expect_time = None, 0
            for step in range(80):
                op = rnd.choice(["call", "call", "call", "dirty", "tick", "bigtick", "fail"])
                if op == "dirty":
                    const.dirty(); expect_time = 0
                    continue
                if op == "tick":
                    clock[0] += 10
                    continue
                if op == "bigtick":
                    clock[0] += 150
                    continue
                fail_next[0] = (op == "fail")
                must = expect_time == 0 or (ttl != 0 and expect_time < clock[0] - ttl)
                before = n[0]
                _reset()
                try:
                    got = ("val", const())
                except KeyError:
                    got = ("exc", None)
                if must:
                    if n[0] != before + 1:
                        return fail("alazy_constant: dirty()/ttl expiry must force exactly one recomputation", ttl=ttl, step=step)
                    if fail_next[0]:
                        if got[0] != "exc":
                            return fail("alazy_constant: raising body must propagate")
                        # a raising body is not cached: next call recomputes
                        expect_time = 0
                    else:
                        if got != ("val", n[0]):
                            return fail("alazy_constant: fresh result expected", got=repr(got))
                        expect_val, expect_time = n[0], clock[0]
                else:
                    if n[0] != before or got != ("val", expect_val):
                        return fail("alazy_constant: cached value must be returned without running the body", got=repr(got),
                                    want=repr(expect_val), body_ran=n[0] != before, ttl=ttl, step=step)
                fail_next[0] = False
    finally:
        T.utime = old_utime
    return None


# ---------------------------------------------------------------------------
# C14 helpers

@scenario(["tools.amap", "tools.afilter", "tools.afilterfalse", "tools.asorted", "tools.amax", "tools.amin", "tools.asift",
           "tools.aretry"], ["C14"])
def helpers_match_builtins(req):
    """amap/afilter/afilterfalse/asorted/amax/amin/asift against map/filter/filterfalse/sorted/max/min/partition for lists, tuples and one-shot iterators, duplicates, equal keys on unorderable values, reverse, bad inputs; aretry attempt counts; one flush per helper call."""
    from asynq import asynq as A, batching, tools, scheduler
    import itertools as it

    class U:          # unorderable payload
        def __init__(self, k, tag):
            self.k, self.tag = k, tag

        def __repr__(self):
            return "U(%r,%r)" % (self.k, self.tag)

    @A()
    def key(x):
        r = yield batching.DebugBatchItem("k", x.k if isinstance(x, U) else x)
        return r

    @A()
    def even(x):
        r = yield batching.DebugBatchItem("k", x)
        return (x.k if isinstance(x, U) else x) % 2 == 0
    inputs = [[], [3], [3, 1, 2], [2, 2, 1, 1, 3], [U(1, "a"), U(1, "b"), U(0, "c"), U(1, "d"), U(0, "e")], [5, 4, 4, 5, 0]]
    kinds = {"list": list, "tuple": tuple, "iter": iter}
    flushes = []

    def run(fn, *a, **k):
        _reset()
        s = scheduler.get_scheduler()
        del flushes[:]
        s.on_before_batch_flush.subscribe(lambda b: flushes.append(len(b.items)))
        return fn(*a, **k)
    for data in inputs:
        plain = lambda x: x.k if isinstance(x, U) else x
        for kname, mk in kinds.items():
            got = run(tools.amap, key, mk(data))
            if got != [plain(x) for x in data]:
                return fail("amap differs from map", data=repr(data), iterable=kname, got=repr(got))
            if data and len(flushes) != 1:
                return fail("all per-element calls of one helper invocation must share a single flush", helper="amap", flushes=list(flushes))
            got = run(tools.afilter, even, mk(data))
            if got != [x for x in data if plain(x) % 2 == 0]:
                return fail("afilter differs from filter", data=repr(data), iterable=kname, got=repr(got))
            got = run(tools.afilterfalse, even, mk(data))
            if got != [x for x in data if plain(x) % 2 != 0]:
                return fail("afilterfalse differs from itertools.filterfalse", data=repr(data), iterable=kname, got=repr(got))
            got = run(tools.asift, even, mk(data))
            want = ([x for x in data if plain(x) % 2 == 0], [x for x in data if plain(x) % 2 != 0])
            if got != want:
                return fail("asift differs from a two-way partition", data=repr(data), iterable=kname, got=repr(got), want=repr(want))
            for rev in (False, True):
                got = run(tools.asorted, mk(data), key=key, reverse=rev)
                want = sorted(data, key=plain, reverse=rev)
                if got != want:
                    return fail("asorted differs from sorted (stability / reverse)", data=repr(data), reverse=rev, iterable=kname,
                                got=repr(got), want=repr(want))
            if data:
                got = run(tools.amax, mk(data), key=key)
                if got is not max(data, key=plain):
                    return fail("amax differs from max (first extreme wins)", data=repr(data), iterable=kname, got=repr(got))
                got = run(tools.amin, mk(data), key=key)
                if got is not min(data, key=plain):
                    return fail("amin differs from min (first extreme wins)", data=repr(data), iterable=kname, got=repr(got))
        if len(data) >= 2:
            if run(tools.amax, *data, key=key) is not max(*data, key=plain) or run(tools.amin, *data, key=key) is not min(*data, key=plain):
                return fail("amax/amin positional-varargs form", data=repr(data))
    if run(tools.afilter, None, [0, 1, "", "x"]) != [1, "x"]:
        return fail("afilter(None, ...) must behave like filter(None, ...)")
    if run(tools.asorted, [3, 1, 2]) != [1, 2, 3] or run(tools.amax, [1, 3, 2]) != 3 or run(tools.amin, 4, 2, 9) != 2:
        return fail("helpers without key")
    for bad in (lambda: run(tools.amax), lambda: run(tools.amin), lambda: run(tools.amax, [1], foo=1), lambda: run(tools.amax, [], key=key)):
        try:
            bad()
            return fail("bad input must raise like the builtin")
        except (TypeError, ValueError):
            pass
    # aretry
    for max_tries in (1, 2, 3, 5):
        for k in range(0, 7):
            n = [0]

            @tools.aretry((KeyError, IndexError), max_tries=max_tries, sleep=0)
            @A()
            def flaky(x):
                n[0] += 1
                yield batching.DebugBatchItem("k", x)
                if n[0] <= k:
                    raise (KeyError if n[0] % 2 else IndexError)(n[0])
                return x
            _reset()
            try:
                got = flaky(4)
            except (KeyError, IndexError):
                got = "raised"
            want_runs = min(k + 1, max_tries)
            if n[0] != want_runs or (got == 4) != (k < max_tries):
                return fail("aretry must run its body exactly min(k+1, max_tries) times", k=k, max_tries=max_tries, runs=n[0], got=repr(got))
        n = [0]

        @tools.aretry(KeyError, max_tries=max_tries, sleep=0)
        @A()
        def other(x):
            n[0] += 1
            raise ValueError(x)
            yield
        _reset()
        try:
            other(1)
        except ValueError:
            pass
        if n[0] != 1:
            return fail("aretry must re-raise an unlisted exception immediately", runs=n[0])
    return None


# ---------------------------------------------------------------------------
# C17 async generators

@scenario(["generator."], ["C17"])
def generators_deliver_values(req):
    """Generator bodies as all sequences (length <= 5) of awaits (with distinct results that later Values depend on) and Values: list_of_generator returns exactly the Values in order, take_first(gen, n) the first n for every n >= 0 without consuming more than needed (repeated calls continue), END_OF_GENERATOR never appears, early advance raises RuntimeError, exhausted generators keep raising StopIteration, repr works."""
    from asynq import asynq as A, batching
    from asynq.generator import async_generator, Value, list_of_generator, take_first, END_OF_GENERATOR

    @A()
    def aw(i):
        r = yield batching.DebugBatchItem("k", i * 10)
        return r
    consumed = []

    def make(body):
        @async_generator()
        def gen():
            acc = 0
            for idx, item in enumerate(body):
                consumed.append(idx)
                if item == "A":
                    got = yield aw.asynq(idx + 1)
                    if got != (idx + 1) * 10:
                        raise AssertionError("await %d resumed with %r" % (idx, got))
                    acc += got
                else:
                    yield Value((idx, acc))
        return gen

    def expected(body):
        out, acc = [], 0
        for idx, item in enumerate(body):
            if item == "A":
                acc += (idx + 1) * 10
            else:
                out.append((idx, acc))
        return out
    for n_items in range(0, 6):
        for body in itertools.product("AV", repeat=n_items):
            want = expected(body)
            _reset()
            del consumed[:]
            try:
                got = list_of_generator(make(body)())
            except AssertionError as e:
                return fail("an await inside the generator was resumed with the wrong result", body="".join(body), detail=str(e))
            if got != want or any(v is END_OF_GENERATOR for v in got):
                return fail("list_of_generator must return exactly the Values in order", body="".join(body), got=repr(got), want=repr(want))
            for n in range(0, len(want) + 2):
                _reset()
                del consumed[:]
                g = make(body)()
                got = take_first(g, n)
                if got != want[:n]:
                    return fail("take_first(gen, n) must return the first n Values (none for n = 0)", body="".join(body), n=n,
                                got=repr(got), want=repr(want[:n]))
                # consumption: no further than just past the n-th Value (awaits after it may be started by probing at most one step)
                if n < len(want):
                    nth_idx = want[n - 1][0] if n > 0 else -1
                    limit = nth_idx + 1
                    # allow the probe of the next item only when it is needed to find a Value
                    if n == 0 and consumed:
                        return fail("take_first(gen, 0) consumed the generator", body="".join(body), consumed=list(consumed))
                    if n > 0 and consumed and max(consumed) > want[n - 1][0]:
                        return fail("take_first consumed more of the generator than needed", body="".join(body), n=n,
                                    consumed_up_to=max(consumed), nth_value_at=want[n - 1][0])
                    rest = take_first(g, 10)
                    if rest != want[n:]:
                        return fail("a repeated take_first must continue where the first stopped", body="".join(body), n=n,
                                    got=repr(rest), want=repr(want[n:]))
    # protocol
    _reset()

    @async_generator()
    def two():
        x = yield aw.asynq(1)
        yield Value(x)
        y = yield aw.asynq(2)
        yield Value(y)
    g = two()
    try:
        repr(g)
    except Exception as e:
        return fail("repr of an async generator raised", exc=repr(e))
    t1 = g.next()
    if not t1.is_computed():
        for attempt in (1, 2, 3):
            try:
                g.next()
                return fail("advancing before the previous task is computed must raise RuntimeError (every time)", attempt=attempt)
            except RuntimeError:
                pass
    if t1.value() != 10:
        return fail("first value", got=repr(t1.value()))
    rest = list_of_generator(g)
    if rest != [20]:
        return fail("rest of generator", got=repr(rest))
    for _ in range(2):
        try:
            g.next()
            return fail("an exhausted generator must keep raising StopIteration")
        except StopIteration:
            pass
    return None
