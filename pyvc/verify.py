"""Verify functions against their contracts; run in worker processes."""
import os
import sys
import time
import traceback
import z3

from .source import Repo
from .contract import Registry
from .engine import Engine, discharge, Obligation
from .symexec import FuncExec, Undecided
from .spec import SpecError

_cache = {}


def setup(root=None):
    key = root or os.environ.get("ASYNQ_VERIF_REPO", "/repo")
    if key not in _cache:
        repo = Repo(key)
        reg = Registry()
        import contracts
        contracts.load(reg, repo)
        eng = Engine(repo, reg)
        _cache[key] = (repo, reg, eng)
    return _cache[key]


def model_summary(ob, limit=40):
    """Readable fragment of a counter-model: parameters, options, a few heap reads."""
    if ob.model is None:
        return {}
    out = {}
    m = ob.model
    for d in m.decls():
        n = d.name()
        if n.startswith("p!") or n.startswith("opt!") or n.startswith("cv!"):
            try:
                out[n] = str(m[d])
            except Exception:
                pass
        if len(out) >= limit:
            break
    return out


def verify_function(args):
    qual, timeout, both, root = args
    t0 = time.time()
    res = {"function": qual, "obligations": [], "undecided": None, "seconds": 0.0, "lineno": None}
    try:
        repo, reg, eng = setup(root)
        c = reg.contracts.get(qual)
        if c is None:
            res["undecided"] = "no contract registered for %s" % qual
            return res
        r = repo.function(qual)
        if r is None:
            res["undecided"] = "function %s not found in the working tree" % qual
            return res
        module, fn = r
        res["lineno"] = fn.lineno
        res["file"] = os.path.relpath(module.path, repo.root)
        cls = module.owner.get(qual.split(".", 1)[1])
        eng.ct.used = set()
        from . import state as _state
        del _state.NEW_ARRAYS[:]
        fx = FuncExec(eng, qual, c, module, fn, cls)
        obs = fx.run()
        for ob in obs:
            discharge(eng, ob, timeout_s=timeout, both=both)
            res["obligations"].append({
                "name": ob.name, "kind": ob.kind, "label": ob.label, "status": ob.status,
                "backend": ob.backend, "seconds": round(ob.seconds, 3), "reason": ob.reason,
                "lineno": ob.lineno, "trace": ob.trace[-12:], "model": model_summary(ob) if ob.status == "failed" else {},
                "model_text": (str(ob.model)[:6000] if ob.status == "failed" and ob.model is not None else ""),
            })
    except (Undecided, SpecError) as e:
        res["undecided"] = "%s: %s" % (type(e).__name__, e)
    except Exception as e:
        res["undecided"] = "engine error: " + traceback.format_exc()[-1500:]
        res["crash"] = True
    res["seconds"] = round(time.time() - t0, 3)
    return res


def finite_scope_refute(eng, ob, timeout):
    """`unknown` on the unbounded query: look for a counter-model with few
    objects (sound for refutation: a model of the negated VC is a model).
    Implemented by asking z3 with model-based quantifier instantiation."""
    t0 = time.time()
    s = z3.Solver()
    s.set("timeout", int(timeout * 1000))
    s.set("smt.mbqi", True)
    s.set("smt.ematching", False)
    s.add(*eng.axioms())
    s.add(*ob.pc)
    s.add(z3.Not(ob.goal))
    r = s.check()
    if r == z3.sat:
        ob.status = "failed"
        ob.model = s.model()
        ob.reason = "z3 sat (mbqi)"
        ob.backend = "z3-mbqi"
    elif r == z3.unsat:
        ob.status = "discharged"
        ob.backend = "z3-mbqi"
    ob.seconds += time.time() - t0


def verify_many(quals, timeout=10, both=False, root=None, jobs=None):
    from multiprocessing import Pool
    jobs = jobs or min(16, max(1, len(quals)))
    args = [(q, timeout, both, root) for q in quals]
    if jobs == 1 or len(quals) == 1:
        return [verify_function(a) for a in args]
    with Pool(jobs) as p:
        return p.map(verify_function, args, chunksize=1)


def main(argv):
    import json
    quals = [a for a in argv if not a.startswith("-")]
    timeout = 10
    for a in argv:
        if a.startswith("--timeout="):
            timeout = float(a.split("=")[1])
    verbose = "-v" in argv
    res = verify_many(quals, timeout=timeout, jobs=1 if "-j1" in argv else None)
    bad = 0
    for r in res:
        if r["undecided"]:
            print("UNDECIDED %s: %s" % (r["function"], r["undecided"]))
            bad += 1
            continue
        n = len(r["obligations"])
        ok = sum(1 for o in r["obligations"] if o["status"] == "discharged")
        print("%s: %d/%d discharged in %.1fs" % (r["function"], ok, n, r["seconds"]))
        for o in r["obligations"]:
            if o["status"] != "discharged" or verbose:
                print("   %-10s %s  [%s %.2fs] %s" % (o["status"], o["name"], o["backend"], o["seconds"], o["reason"]))
                if o["status"] != "discharged":
                    bad += 1
                    for t in o["trace"]:
                        print("        | " + t)
                    if o["model"]:
                        print("        model: " + json.dumps(o["model"]))
    return 1 if bad else 0


if __name__ == "__main__":
    sys.exit(main(sys.argv[1:]))
