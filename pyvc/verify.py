"""Verify functions against their contracts.

Stage 1 (pool over functions): symbolic execution of the real function body
against its contract -> obligations, serialised to SMT-LIB2.
Stage 2 (pool over obligations): each obligation solved in its own process
(z3 E-matching, then MBQI for counter-models, then cvc5 on z3-unknowns)."""
import os
import sys
import time
import traceback
import multiprocessing

from .source import Repo
from .contract import Registry
from .engine import Engine, serialize, solve_text
from .symexec import FuncExec, Undecided
from .spec import SpecError

_cache = {}


def setup(root=None):
    key = root or os.environ.get("ASYNQ_VERIF_REPO", "/repo")
    if key not in _cache:
        repo = Repo(key)
        reg = Registry()
        import contracts
        contracts.load(reg, repo)
        eng = Engine(repo, reg)
        _cache[key] = (repo, reg, eng)
    return _cache[key]


def generate(args):
    """Stage 1: one function -> serialised obligations."""
    qual, root = args
    t0 = time.time()
    res = {"function": qual, "obligations": [], "undecided": None, "seconds": 0.0, "lineno": None}
    try:
        repo, reg, eng = setup(root)
        c = reg.contracts.get(qual)
        if c is None:
            res["undecided"] = "no contract registered for %s" % qual
            return res
        r = repo.function(qual)
        if r is None:
            res["undecided"] = "function %s not found in the working tree" % qual
            return res
        module, fn = r
        res["lineno"] = fn.lineno
        res["file"] = os.path.relpath(module.path, repo.root)
        cls = module.owner.get(qual.split(".", 1)[1])
        eng.ct.used = set()
        from . import state as _state
        del _state.NEW_ARRAYS[:]
        fx = FuncExec(eng, qual, c, module, fn, cls)
        res["never_returns"] = (list(c.post) == ["False"])
        obs = fx.run()
        res["callees"] = sorted(getattr(fx, "applied_contracts", ()))
        for ob in obs:
            text, nparts = serialize(eng, ob)
            rtext = None
            if not ob.expect_sat and len(ob.pc) > 25:
                rtext, _n = serialize(eng, ob, reduced=True)
            res["obligations"].append({"rtext": rtext,
                "name": ob.name, "kind": ob.kind, "label": ob.label, "lineno": ob.lineno,
                "trace": ob.trace[-12:], "text": text, "nparts": nparts,
                "parts": [l for l, _f in (ob.parts or [])], "expect_sat": ob.expect_sat, "soft": getattr(ob, "soft", False)})
    except (Undecided, SpecError) as e:
        res["undecided"] = "%s: %s" % (type(e).__name__, e)
    except Exception:
        res["undecided"] = "engine error: " + traceback.format_exc()[-1500:]
        res["crash"] = True
    res["gen_seconds"] = round(time.time() - t0, 3)
    return res


def solve(args):
    text, nparts, timeout, expect_sat, both, rtext = args
    try:
        r = solve_text(text, nparts, timeout, expect_sat=expect_sat, both=both, reduced_text=rtext)
        if r["status"] == "unknown" and not expect_sat and timeout <= 20 and not os.environ.get("PYVC_NO_RETRY"):
            # undecided within the budget: one retry with three times the budget, so that a verdict does not flip to
            # "undecided" just because every core is busy (an obligation that is really unprovable pays this once)
            r2 = solve_text(text, nparts, timeout * 3, expect_sat=expect_sat, both=both, reduced_text=rtext)
            r2["seconds"] = r.get("seconds", 0) + r2.get("seconds", 0)
            if r2["status"] != "unknown":
                r2["backend"] = (r2.get("backend") or "z3") + " (retry, 3x budget)"
            return r2
        return r
    except Exception:
        return {"status": "unknown", "backend": "z3", "reason": "solver error: " + traceback.format_exc()[-600:],
                "model": {}, "model_text": "", "failed_parts": [], "unknown_parts": [], "seconds": 0.0}


def verify_many(quals, timeout=10, both=False, root=None, jobs=None):
    jobs = jobs or int(os.environ.get("PYVC_JOBS", "16"))
    ctx = multiprocessing.get_context("fork")
    gen_args = [(q, root) for q in quals]
    if jobs == 1 or len(quals) == 1:
        results = [generate(a) for a in gen_args]
    else:
        with ctx.Pool(min(jobs, len(quals))) as p:
            results = p.map(generate, gen_args, chunksize=1)
    flat = []
    for ri, r in enumerate(results):
        for oi, o in enumerate(r["obligations"]):
            flat.append((ri, oi, (o["text"], o["nparts"], timeout, o["expect_sat"], both, o.pop("rtext", None))))
    # biggest first: better load balance
    order = sorted(range(len(flat)), key=lambda i: -len(flat[i][2][0]))
    if flat:
        if jobs == 1:
            outs = [solve(flat[i][2]) for i in order]
        else:
            with ctx.Pool(min(jobs, len(flat))) as p:
                outs = p.map(solve, [flat[i][2] for i in order], chunksize=1)
        for i, out in zip(order, outs):
            ri, oi, _a = flat[i]
            o = results[ri]["obligations"][oi]
            o.pop("text", None)
            o.update({"status": out["status"], "backend": out["backend"], "seconds": round(out["seconds"], 3),
                      "reason": out["reason"], "model": out["model"], "model_text": out["model_text"]})
            parts = o.get("parts") or []
            fp = [parts[k] for k in out.get("failed_parts", []) if k < len(parts)]
            up = [parts[k] for k in out.get("unknown_parts", []) if k < len(parts)]
            if fp or up:
                o["reason"] += " [conjuncts failed: %s; undecided: %s]" % (",".join(fp) or "-", ",".join(up) or "-")
                # name the failing conjunct
                if fp:
                    o["name"] = o["name"] + "." + fp[0]
                elif up:
                    o["name"] = o["name"] + "." + up[0]
    for r in results:
        # exit-path covers: a refuted (dead) path is fine unless every normal exit of the function is dead
        soft = [o for o in r["obligations"] if o.get("soft")]
        rets = [o for o in soft if o["label"].startswith("return-path")]
        dead_rets = [o for o in rets if o.get("status") == "failed"]
        keep = [o for o in r["obligations"] if not o.get("soft")]
        if rets and not r.get("never_returns"):
            alive = len(rets) - len(dead_rets)
            keep.append({"name": "%s#cover:some-normal-exit-reachable" % r["function"], "kind": "cover", "label": "some-normal-exit-reachable",
                         "lineno": None, "trace": ["%d of %d normal exit paths have satisfiable (or not refutable) hypotheses" % (alive, len(rets))],
                         "status": "discharged" if alive > 0 else "failed", "backend": "z3",
                         "seconds": round(sum(o.get("seconds", 0) for o in soft), 3),
                         "reason": "" if alive > 0 else "every normal exit path has contradictory hypotheses: the proof would be vacuous",
                         "model": {}, "model_text": "", "parts": [], "nparts": 0, "expect_sat": True})
        r["dead_paths"] = [o["label"] + " @" + " / ".join(o["trace"][-3:]) for o in soft if o.get("status") == "failed"]
        r["obligations"] = keep
        r["seconds"] = round(r.get("gen_seconds", 0) + sum(o.get("seconds", 0) for o in r["obligations"]), 3)
    return results


def main(argv):
    import json
    quals = [a for a in argv if not a.startswith("-")]
    timeout = 10
    for a in argv:
        if a.startswith("--timeout="):
            timeout = float(a.split("=")[1])
    verbose = "-v" in argv
    t0 = time.time()
    res = verify_many(quals, timeout=timeout, jobs=1 if "-j1" in argv else None)
    bad = 0
    for r in res:
        if r["undecided"]:
            print("UNDECIDED %s: %s" % (r["function"], r["undecided"]))
            bad += 1
            continue
        n = len(r["obligations"])
        ok = sum(1 for o in r["obligations"] if o["status"] == "discharged")
        print("%s: %d/%d discharged (gen %.1fs, solver %.1fs)%s" % (r["function"], ok, n, r.get("gen_seconds", 0), r["seconds"],
                                                                      ("  dead paths: %d" % len(r.get("dead_paths", []))) if r.get("dead_paths") else ""))
        if "-v" in argv or "--dead" in argv:
            for dp in r.get("dead_paths", []):
                print("      dead: " + dp)
        for o in r["obligations"]:
            if o["status"] != "discharged" or verbose:
                print("   %-10s %s  [%s %.2fs] %s" % (o["status"], o["name"], o["backend"], o["seconds"], o["reason"]))
                if o["status"] != "discharged":
                    bad += 1
                    for t in o["trace"]:
                        print("        | " + t)
                    if o["model"]:
                        print("        model: " + json.dumps(o["model"]))
    print("wall %.1fs" % (time.time() - t0))
    return 1 if bad else 0


if __name__ == "__main__":
    sys.exit(main(sys.argv[1:]))
