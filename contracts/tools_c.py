"""Contracts for asynq/tools.py: deduplicate (C12), caches (C13), retry (C14).  Nested functions are
verified with their closure variables declared as ghost locals (free variables of the real closure)."""
from pyvc.contract import Contract as C

D = "tools.DeduplicateDecorator."


def register(reg, repo):
    reg.field_types[("DeduplicateDecorator", "tasks")] = "dict"
    reg.extra_classes.setdefault("AsyncDecorator", ["object"])
    # calling a function value with *args/**kwargs (the wrapped async function): unknown code
    reg.add(C("env.callstar", params=["fn", "*args", "**kwargs"], kind="callvalue", modifies="*", trusted=True,
              post=["alloc(result)"], xpost=["True"],
              note="call of the wrapped (unknown) function with forwarded arguments"))
    reg.add(C("env.subscribe", params=["self", "handler"], kind="method", modifies=["$subs"], trusted=True, post=[], xpost=None))
    reg.add(C(D + "cache_key", modifies=[], trusted=True, pure_fn="dedup_key", post=[], xpost=None,
              note="(keygetter(args, kwargs), current_thread(), id(fn)): shape checked structurally (structural#dedup-key-thread); "
                   "within asynq()/dirty() it is an opaque deterministic key"))

    TD = ["$dget", "$dhas", "$olen", "$okey", "$oval"]
    KEPT = "unchanged('$dget', '$dhas', '$olen', '$okey', '$oval')"
    reg.add(C(D + "asynq", modifies="*",
              calls={"self.fn.asynq": "env.callstar", "self.fn.asyncio": "env.callstar", "task.on_computed.subscribe": "env.subscribe"},
              types={"task": "AsyncTask"},
              labels={"noattrcheck": True,
                      # what the wrapped call may do to the shared map is its own business (E2); the task it returns is new
                      "site_assumes_after": {"self.fn.asynq": ["unchanged('$dget', '$dhas', '$olen', '$okey', '$oval')",
                                                               "all(t._contexts is not self.tasks for t in objs(AsyncTask))"]},
                      ("post", 1): "in-flight-call-returns-the-very-same-task", ("post", 0): "first-call-runs-the-function-once-and-registers-it",
                      ("post", 2): "running-task-is-not-returned"},
              requires=["exact(self.tasks, dict)", "not truthy(_asyncio_mode.cv_value)"],
              assumes=["all(implies(dhas(self.tasks, k), isinstance(dget(self.tasks, k), AsyncTask) and alloc(dget(self.tasks, k))) for k in vals())",
                       "all(t._contexts is not self.tasks for t in objs(AsyncTask))"],
              post=["implies(not old(dhas(self.tasks, dedup_key(self, args, kwargs))), callcount('env.callstar') == 1 and "
                    "dhas(self.tasks, dedup_key(self, args, kwargs)) and dget(self.tasks, dedup_key(self, args, kwargs)) is result and "
                    "callcount('env.subscribe') == 1)",
                    "implies(old(dhas(self.tasks, dedup_key(self, args, kwargs))) and not old(dget(self.tasks, dedup_key(self, args, kwargs)).running == True), "
                    "result is old(dget(self.tasks, dedup_key(self, args, kwargs))) and callcount('env.callstar') == 0 and " + KEPT + ")",
                    "implies(old(dhas(self.tasks, dedup_key(self, args, kwargs))) and old(dget(self.tasks, dedup_key(self, args, kwargs)).running == True), "
                    "callcount('env.callstar') == 1 and " + KEPT + ")"],
              xpost=["True"]))
    reg.pyfuncs["dedup_key"] = _dedup_key

    reg.add(C(D + "asynq.callback", modifies=TD,
              ghost_locals={"self": "DeduplicateDecorator", "cache_key": None},
              requires=["exact(self.tasks, dict)", "task is not None"],
              assumes=["all(t._contexts is not self.tasks for t in objs(AsyncTask))"],
              labels={"noattrcheck": True, ("post", 0): "removes-its-own-entry", ("post", 1): "leaves-a-newer-entry-alone"},
              post=["implies(old(dhas(self.tasks, cache_key)) and old(dget(self.tasks, cache_key)) is task, not dhas(self.tasks, cache_key))",
                    "implies(not (old(dhas(self.tasks, cache_key)) and old(dget(self.tasks, cache_key)) is task), " + KEPT + ")",
                    "only(self.tasks, '$dget', '$dhas', '$olen', '$okey', '$oval')"],
              xpost=None,
              note="from the statement: 'once IT completes ... the next call runs the body again' and 'while a call is not yet complete "
                   "every further call returns the very same task': the completion callback may drop only the entry that still is its task"))

    reg.add(C(D + "dirty", modifies=TD, requires=["exact(self.tasks, dict)"], labels={"noattrcheck": True},
              assumes=["all(t._contexts is not self.tasks for t in objs(AsyncTask))"],
              post=["not dhas(self.tasks, dedup_key(self, args, kwargs))",
                    "all(implies(k is not dedup_key(self, args, kwargs), dhas(self.tasks, k) == old(dhas(self.tasks, k)) and "
                    "dget(self.tasks, k) is old(dget(self.tasks, k))) for k in vals())"],
              xpost=None))

    # ---- caches ------------------------------------------------------------------------------------------
    reg.add(C("env.cache_key", params=["fn", "args", "kwargs"], kind="callvalue", modifies=[], trusted=True,
              pure_fn="cache_key_fn", post=[], xpost=["True"],
              note="cache_key(args, kwargs): key_fn or get_args_tuple over the wrapped function's argument names (key construction: "
                   "bounded stand-in caches_reference_model; the argument-name list is checked structurally)"))
    reg.add(C("LRUCache.__getitem__", params=["self", "key"], kind="method", modifies=["$lru"], trusted=True,
              post=["old(lru_has(self, key))", "result is old(lru_get(self, key))"],
              xpost=["not old(lru_has(self, key))", "isinstance(exc, KeyError)"],
              note="qcore.caching.LRUCache: hit returns the stored value (and refreshes recency), miss raises KeyError"))
    reg.add(C("LRUCache.__setitem__", params=["self", "key", "value"], kind="method", modifies=["$lru"], trusted=True,
              post=[], xpost=None))
    reg.pyfuncs["cache_key_fn"] = _ckf
    reg.pyfuncs["lru_has"] = lambda env, c, k: _lru(env, "has", c, k)
    reg.pyfuncs["lru_get"] = lambda env, c, k: _lru(env, "get", c, k)

    reg.add(C("tools.alru_cache.decorator.wrapper", modifies="*", generator="env.yield",
              ghost_locals={"cache": "LRUCache", "cache_key": None, "async_fun": None},
              calls={"cache_key": "env.cache_key", "async_fun": "env.callstar",
                     "cache.__getitem__": "LRUCache.__getitem__", "cache.__setitem__": "LRUCache.__setitem__"},
              labels={("post", 0): "hit-returns-stored-value-without-running-the-body",
                      ("post", 1): "miss-runs-the-body-once", ("post", 2): "miss-yields-once", ("post", 3): "miss-stores-once",
                      ("post", 4): "miss-returns-the-fresh-result", ("xpost", 0): "a-raising-body-is-not-cached"},
              post=["implies(old(lru_has(cache, cache_key_fn(cache_key, args, kwargs))), callcount('env.callstar') == 0 and "
                    "callcount('env.yield') == 0 and callcount('LRUCache.__setitem__') == 0 and "
                    "result is old(lru_get(cache, cache_key_fn(cache_key, args, kwargs))))",
                    "implies(not old(lru_has(cache, cache_key_fn(cache_key, args, kwargs))), callcount('env.callstar') == 1)",
                    "implies(not old(lru_has(cache, cache_key_fn(cache_key, args, kwargs))), callcount('env.yield') == 1)",
                    "implies(not old(lru_has(cache, cache_key_fn(cache_key, args, kwargs))), callcount('LRUCache.__setitem__') == 1)",
                    "implies(not old(lru_has(cache, cache_key_fn(cache_key, args, kwargs))), result is None.$last_yield)"],
              xpost=["callcount('LRUCache.__setitem__') == 0"]))

    reg.add(C("tools.alazy_constant.decorator.wrapper", modifies="*", generator="env.yield",
              requires=["exact(wrapper.alazy_constant_refresh_time, int)"],
              ghost_locals={"wrapper": None, "ttl": "int", "fn": None},
              calls={"fn.asynq": "env.callstar", "utime": "qcore.utime"},
              labels={"noattrcheck": True, "intcmp": True,
                      # unknown code run by the body does not touch this wrapper's cache attributes (E1)
                      "site_assumes_after": {"fn.asynq": ["wrapper.alazy_constant_refresh_time is old(wrapper.alazy_constant_refresh_time)",
                                                          "wrapper.alazy_constant_cached_value is old(wrapper.alazy_constant_cached_value)"]},
                      "site_requires": {"fn.asynq": ["wrapper.alazy_constant_refresh_time is entry_refresh_time(wrapper)"]},
                      ("post", 0): "dirty-forces-a-recomputation", ("post", 1): "at-most-one-recomputation",
                      ("post", 3): "otherwise-the-cached-value-is-returned"},
              post=["implies(int(old(wrapper.alazy_constant_refresh_time)) == 0, callcount('env.yield') == 1)",
                    "callcount('env.yield') <= 1", "callcount('env.callstar') == callcount('env.yield')",
                    "implies(callcount('env.yield') == 0, result is old(wrapper.alazy_constant_cached_value))"],
              xpost=["True"]))
    reg.pyfuncs["entry_refresh_time"] = lambda env, w: env.old.sel("alazy_constant_refresh_time", w)
    reg.pyfuncs["no_info"] = lambda env: __import__("z3").BoolVal(False)

    reg.add(C("tools.alazy_constant.decorator.dirty", modifies=["alazy_constant_refresh_time"],
              ghost_locals={"wrapper": None}, labels={"noattrcheck": True},
              post=["int(wrapper.alazy_constant_refresh_time) == 0", "only(wrapper, 'alazy_constant_refresh_time')"], xpost=None))

    reg.add(C("tools.aretry.decorator.wrapper", modifies="*", generator="env.yield",
              ghost_locals={"fn": None, "max_tries": "int", "exception_cls": None, "sleep": None},
              calls={"fn.asynq": "env.callstar", "time.sleep": "env.diag"},
              types={"i": "int"},
              requires=["int(max_tries) > 0"],
              labels={"noattrcheck": True},
              post=["True"], xpost=["True"],
              invariants={1: ["inv()", "two_state('old')", "0 <= int(_i1) and int(_i1) <= int(max_tries)"]},
              note="loop structure under contract; attempt counts are checked by the bounded stand-in helpers_match_builtins"))


def _dedup_key(env, self, args, kwargs):
    import z3
    from pyvc.smt import V
    from pyvc.spec import as_v
    f = z3.Function("pf!dedup_key", V, V, V, V)
    return f(as_v(self), as_v(args), as_v(kwargs))


def _ckf(env, fn, args, kwargs):
    import z3
    from pyvc.smt import V
    from pyvc.spec import as_v
    f = z3.Function("pf!cache_key_fn", V, V, V, V)
    return f(as_v(fn), as_v(args), as_v(kwargs))


def _lru(env, what, c, k):
    import z3
    from pyvc.smt import V
    from pyvc.spec import as_v
    arr = env.heap.get("$lru")
    if what == "has":
        f = z3.Function("lru_has", arr.sort(), V, V, z3.BoolSort())
    else:
        f = z3.Function("lru_get", arr.sort(), V, V, V)
    return f(arr, as_v(c), as_v(k))
