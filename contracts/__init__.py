"""Sidecar contracts for quora/asynq.  Nothing here edits /repo: the contracts
are keyed by qualified function name and loop ordinal and are matched against
the source re-read from the working tree on every run."""
import importlib

MODULES = ["common", "debug_c", "futures_c", "batching_c", "scheduler_c", "async_task_c", "contexts_c", "generator_c", "tools_c", "decorators_c", "diag_c"]


def load(reg, repo):
    for m in MODULES:
        mod = importlib.import_module("contracts." + m)
        mod.register(reg, repo)
    return reg
