#!/bin/sh
cd /verif
M="python3 tools/mutcheck.py futures.py"
$M '        if self.is_computed():
            raise FutureIsAlreadyComputed(self)
        self._error = error' '        self._error = error' futures.FutureBase.set_error | grep -v "^        |"
$M '        if self._value is _none:
            self._compute()
        self.raise_if_error()' '        if self._value is _none or self._error is not None:
            self._compute()
        self.raise_if_error()' futures.FutureBase.value | grep -v "^        |"
$M '        self._value = value
        self._computed()' '        self._computed()
        self._value = value' futures.FutureBase.set_value | grep -v "^        |"
$M 'return self._value is not _none' 'return self._value is not None' futures.FutureBase.is_computed | grep -v "^        |"
$M '            self.set_error(error)
            raise' '            self.set_error(error)' futures.Future._compute | grep -v "^        |"
$M 'self.on_computed.safe_trigger(self)' 'self.on_computed.trigger(self)' futures.FutureBase._computed | grep -v "^        |"
