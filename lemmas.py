"""Property-level lemmas: first-order consequences of the contracts."""


def run(lem, eng, timeout):
    raise NotImplementedError(lem)
