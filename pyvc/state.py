"""Symbolic heap and path state."""
import itertools
import z3
from .smt import V, Int, Bool

_epoch = itertools.count(1)
_fresh = itertools.count(1)

AVV = z3.ArraySort(V, V)
AVI = z3.ArraySort(V, Int)
AVB = z3.ArraySort(V, Bool)
AIV = z3.ArraySort(Int, V)
AVAIV = z3.ArraySort(V, AIV)
AVAVB = z3.ArraySort(V, AVB)
AVAVV = z3.ArraySort(V, AVV)

SPECIAL_SORTS = {
    "$alloc": AVB,
    "$llen": AVI,       # list length
    "$litem": AVAIV,    # list items
    "$smem": AVAVB,     # set membership
    "$dhas": AVAVB,     # dict key present
    "$dget": AVAVV,     # dict value
    "$olen": AVI,       # ordered view of a dict: number of entries
    "$okey": AVAIV,     # ordered view: key at position
    "$oval": AVAIV,     # ordered view: value at position
    "$dynattr": AVAVV,  # getattr/setattr with a run-time attribute name
}


def field_sort(name):
    if name in SPECIAL_SORTS:
        return SPECIAL_SORTS[name]
    if name.startswith("$n_"):      # ghost counters
        return AVI
    if name.startswith("$b_") or name.startswith("$has:"):   # ghost flags / attribute presence
        return AVB
    if name.startswith("$g_"):      # ghost global Int (0-dim): model as Int array over V, index NONE
        return AVI
    return AVV


def fresh_name(prefix):
    return "%s!%d" % (prefix, next(_fresh))


def fresh_v(prefix="v"):
    return z3.Const(fresh_name(prefix), V)


def fresh_int(prefix="n"):
    return z3.Const(fresh_name(prefix), Int)


def fresh_bool(prefix="b"):
    return z3.Const(fresh_name(prefix), Bool)


NEW_ARRAYS = []      # (field, array const) created since last drain: array-level facts attach to them


class Heap:
    """Map field name -> z3 array.  Fields not present are, by construction,
    unchanged since the last whole-heap havoc (epoch) and are created lazily
    under a name determined by (field, epoch)."""

    def __init__(self, epoch=None, arr=None):
        self.epoch = next(_epoch) if epoch is None else epoch
        self.arr = dict(arr or {})

    def copy(self):
        return Heap(self.epoch, self.arr)

    def get(self, name):
        a = self.arr.get(name)
        if a is None:
            a = z3.Const("%s@%d" % (name, self.epoch), field_sort(name))
            self.arr[name] = a
            NEW_ARRAYS.append((name, a))
        return a

    def set(self, name, a):
        self.arr[name] = a

    def sel(self, name, obj):
        return z3.Select(self.get(name), obj)

    def store(self, name, obj, val):
        self.arr[name] = z3.Store(self.get(name), obj, val)

    def havoc_all(self):
        return Heap()

    def havoc_fields(self, names):
        for n in names:
            self.arr[n] = z3.Const(fresh_name(n + "@h"), field_sort(n))
            NEW_ARRAYS.append((n, self.arr[n]))

    def same_as(self, other):
        """z3 formula: this heap equals `other` on every field either has touched."""
        if self.epoch == other.epoch:
            names = set(self.arr) | set(other.arr)
        else:
            return None  # different epochs: cannot be stated finitely
        cs = []
        for n in sorted(names):
            a, b = self.get(n), other.get(n)
            if not a.eq(b):
                cs.append(a == b)
        return z3.And(*cs) if cs else z3.BoolVal(True)

    def changed_fields(self, other):
        if self.epoch != other.epoch:
            return None
        out = []
        for n in sorted(set(self.arr) | set(other.arr)):
            if not self.get(n).eq(other.get(n)):
                out.append(n)
        return out


class State:
    def __init__(self):
        self.locals = {}      # name -> z3 V
        self.ltypes = {}      # name -> static type string (class name / 'list' / ...)
        self.ghost = {}       # name -> z3 expr (any sort)
        self.heap = Heap()
        self.pc = []          # path condition: list of z3 Bool
        self.trace = []       # human-readable path description
        self.exc_stack = []   # exceptions being handled (for bare raise)
        self.dead = False
        self.fresh = []       # [obj, epoch, set(fields already closed)] allocated on this path
        self.unescaped = []   # fresh objects not yet stored into the heap / passed to a call

    def copy(self):
        s = State.__new__(State)
        s.locals = dict(self.locals)
        s.ltypes = dict(self.ltypes)
        s.ghost = dict(self.ghost)
        s.heap = self.heap.copy()
        s.pc = list(self.pc)
        s.trace = list(self.trace)
        s.exc_stack = list(self.exc_stack)
        s.dead = self.dead
        s.fresh = [[o, e, set(c)] for o, e, c in self.fresh]
        s.unescaped = list(self.unescaped)
        return s

    def assume(self, f, note=None):
        if z3.is_true(f):
            return
        self.pc.append(f)
        if note:
            self.trace.append(note)
