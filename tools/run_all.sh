#!/bin/sh
# run every registered check on the current tree (writes evidence/<id>.json)
cd /verif
tier=${1:-quick}
for p in C01 C02 C03 C04 C05 C06 C07 C08 C09 C10 C11 C12 C13 C14 C15 C16 C17 C18 C19 C20; do
  ./check $p --tier $tier > /tmp/runall_$p.log 2>&1; rc=$?
  echo "$p rc=$rc $(grep -E "^C[0-9]+ \[" /tmp/runall_$p.log | cut -c1-150)"
  grep -E "VIOLATION|UNDECIDED|KNOWN-FINDING|CHECKER" /tmp/runall_$p.log | head -5
done
