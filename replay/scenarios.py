"""Replay scenarios: small concrete programs against the REAL code (scratch
pure-Python copy of the working tree) with an oracle taken from the property
statement.  Each returns None when the real code behaves as the contract
says, or a dict describing the failing input and observation.

A scenario is selected when the failed obligation belongs to one of the
functions it is registered for (or, failing that, to its property)."""
import functools

REG = []   # (function prefixes, properties, callable)


def scenario(functions=(), props=()):
    def deco(f):
        REG.append((tuple(functions), tuple(props), f))
        return f
    return deco


def select(fn, pid):
    first = [f for fns, ps, f in REG if any(fn.startswith(x) for x in fns)]
    second = [f for fns, ps, f in REG if pid in ps and f not in first]
    return first + second


def fail(what, **kw):
    d = {"what": what}
    d.update(kw)
    return d


# ---------------------------------------------------------------------------
# futures (C10)

class _Log:
    def __init__(self):
        self.events = []


@scenario(["futures.FutureBase.set_value", "futures.FutureBase.set_error", "futures.FutureBase.is_computed",
           "futures.FutureBase._computed", "futures.FutureBase.reset_unsafe"], ["C10"])
def fut_set_once(req):
    """set_value/set_error twice: second raises FutureIsAlreadyComputed and changes nothing; subscribers notified once, after the outcome is visible."""
    from asynq import futures
    for first in ("value", "error"):
        for second in ("value", "error"):
            f = futures.Future(lambda: 1)
            seen = []
            f.on_computed.subscribe(lambda fut: seen.append((fut.is_computed(), fut._value, fut._error)))

            def boom(fut):
                raise ValueError("subscriber")
            f.on_computed.subscribe(boom)
            f.on_computed.subscribe(lambda fut: seen.append("third"))
            e1 = KeyError("e1")
            import io, contextlib
            buf = io.StringIO()
            with contextlib.redirect_stdout(buf), contextlib.redirect_stderr(buf):
                if first == "value":
                    f.set_value(41)
                else:
                    f.set_error(e1)
            if not f.is_computed():
                return fail("not computed after set_" + first, first=first)
            want = (True, 41, None) if first == "value" else (True, None, e1)
            if seen != [want, "third"]:
                return fail("subscribers not notified exactly once after the outcome is visible", first=first, seen=repr(seen))
            try:
                if second == "value":
                    f.set_value(42)
                else:
                    f.set_error(KeyError("e2"))
                return fail("second set_%s did not raise" % second, first=first, second=second)
            except futures.FutureIsAlreadyComputed:
                pass
            got = (f._value, f._error)
            if got != want[1:]:
                return fail("second set changed the outcome", first=first, second=second, got=repr(got))
            if len(seen) != 2:
                return fail("second set notified subscribers", seen=repr(seen))
    return None


@scenario(["futures.FutureBase.value", "futures.FutureBase.error", "futures.FutureBase.__call__",
           "futures.Future._compute", "futures.FutureBase.raise_if_error", "futures.Future.__init__"], ["C10"])
def fut_value_consistent(req):
    """value()/error()/__call__ on providers that return or raise: one computation, one consistent outcome."""
    from asynq import futures
    calls = []

    def good():
        calls.append(1)
        return "v"
    f = futures.Future(good)
    if f.is_computed():
        return fail("fresh Future is computed")
    got = [f.value(), f(), f.value(), f.error()]
    if got != ["v", "v", "v", None] or len(calls) != 1:
        return fail("value/call/error disagree or provider ran more than once", got=repr(got), calls=len(calls))
    calls2 = []
    err = ZeroDivisionError("z")

    def bad():
        calls2.append(1)
        raise err
    g = futures.Future(bad)
    for i in range(3):
        try:
            g.value() if i != 1 else g()
            return fail("failing provider: value() returned", attempt=i)
        except ZeroDivisionError as e:
            if e is not err:
                return fail("different exception instance", attempt=i)
    if g.error() is not err or len(calls2) != 1:
        return fail("error() inconsistent or provider re-run on stored error", calls=len(calls2), error=repr(g.error()))
    h = futures.Future(bad)
    calls2[:] = []
    try:
        h.error()      # Future._compute re-raises the provider's Exception after storing it
    except ZeroDivisionError:
        pass
    if h.error() is not err or not h.is_computed() or len(calls2) != 1:
        return fail("error() on a failing future", error=repr(h._error), calls=len(calls2))
    return None


@scenario(["futures.ConstFuture.__init__", "futures.ErrorFuture.__init__", "futures.FutureBase.__init__"], ["C10"])
def fut_const(req):
    """ConstFuture / ErrorFuture are complete from construction."""
    from asynq import futures
    c = futures.ConstFuture(5)
    if not c.is_computed() or c.value() != 5 or c.error() is not None:
        return fail("ConstFuture not complete", value=repr(c._value))
    e = RuntimeError("x")
    ef = futures.ErrorFuture(e)
    if not ef.is_computed() or ef.error() is not e:
        return fail("ErrorFuture not complete")
    try:
        ef.value()
        return fail("ErrorFuture.value() returned")
    except RuntimeError as x:
        if x is not e:
            return fail("ErrorFuture raised another instance")
    for fut in (c, ef):
        try:
            fut.set_value(1)
            return fail("set_value on a constant future did not raise")
        except futures.FutureIsAlreadyComputed:
            pass
    p = futures.Future(lambda: 1)
    if p.is_computed() or p._error is not None:
        return fail("fresh future not pending")
    return None


# ---------------------------------------------------------------------------
# batching (C11)

def _mk_batch(asynq, flush_body, cancel_body=None, switch_log=None):
    from asynq import batching

    class B(batching.BatchBase):
        def __init__(self):
            super().__init__()
            self.flushes = 0
            self.switched_before_flush = None
            self._switched = False

        def _try_switch_active_batch(self):
            self._switched = True

        def _flush(self):
            self.flushes += 1
            self.switched_before_flush = self._switched
            flush_body(self)

        def _cancel(self):
            if cancel_body:
                cancel_body(self)

    class I(batching.BatchItemBase):
        pass
    return B, I


@scenario(["batching.BatchBase.flush", "batching.BatchBase._compute", "batching.BatchBase._computed",
           "batching.BatchBase.cancel", "batching.BatchItemBase.__init__", "batching.BatchItemBase._compute",
           "batching.BatchBase.__init__", "batching.BatchBase.is_flushed", "batching.BatchBase.is_cancelled",
           "batching.BatchBase.is_empty"], ["C11", "C05"])
def batch_lifecycle(req):
    """flush/cancel/add-item lifecycle with flush bodies that set all, some or no items, raise Exception or BaseException."""
    import asynq
    from asynq import batching, futures

    class Quit(BaseException):
        pass

    def set_all(b):
        for i, it in enumerate(b.items):
            it.set_value(i)

    def set_some(b):
        for i, it in enumerate(b.items):
            if i % 2 == 0:
                it.set_value(i)

    def set_none(b):
        pass

    def raise_exc(b):
        b.items[0].set_value("kept")
        raise ValueError("flush failed")

    def raise_base(b):
        raise Quit()

    for name, body in [("all", set_all), ("some", set_some), ("none", set_none), ("exc", raise_exc), ("base", raise_base)]:
        B, I = _mk_batch(asynq, body)
        b = B()
        if b.is_flushed() or b.is_cancelled() or not b.is_empty():
            return fail("fresh batch state wrong", body=name)
        items = [I(b) for _ in range(3)]
        if [it.index for it in items] != [0, 1, 2] or b.is_empty():
            return fail("item indices / is_empty wrong", body=name)
        order = []
        b.on_computed.subscribe(lambda _b: order.append(("batch", [it.is_computed() for it in items])))
        try:
            b.flush()
        except BaseException as e:
            return fail("flush() raised for flush body %r" % name, exc=repr(e))
        if b.flushes != 1 or b.switched_before_flush is not True:
            return fail("flush body count / active-batch switch order wrong", body=name, flushes=b.flushes,
                        switched_before_flush=b.switched_before_flush)
        if not b.is_flushed():
            return fail("batch not flushed after flush()", body=name)
        if not all(it.is_computed() for it in items):
            return fail("item left pending after flush", body=name, computed=[it.is_computed() for it in items])
        if order != [("batch", [True, True, True])]:
            return fail("batch announced before all its items were complete (or not exactly once)", body=name, order=repr(order))
        # outcomes
        if name == "all" and [it.value() for it in items] != [0, 1, 2]:
            return fail("item values differ from what the flush set", body=name)
        if name == "some":
            if items[0].value() != 0 or items[2].value() != 2 or not isinstance(items[1].error(), AssertionError):
                return fail("unset item not failed with AssertionError / set item lost", body=name)
        if name == "none" and not all(isinstance(it.error(), AssertionError) for it in items):
            return fail("unset items must fail with AssertionError", body=name)
        if name == "exc":
            if items[0].value() != "kept" or not isinstance(items[1].error(), ValueError):
                return fail("flush error must reach unset items, set items keep their value", body=name,
                            e=repr(items[1].error()))
            if not b.is_cancelled():
                return fail("batch with failed flush must report is_cancelled()", body=name)
        if name == "base" and not isinstance(items[0].error(), Quit):
            return fail("BaseException from the flush body must become the items' error", body=name)
        try:
            b.flush()
            return fail("second flush() did not raise", body=name)
        except batching.BatchingError:
            pass
        if b.flushes != 1:
            return fail("second flush ran the body", body=name)
        try:
            b.cancel()
        except BaseException as e:
            return fail("cancel() on a finished batch raised", exc=repr(e))
        try:
            I(b)
            return fail("item added to a finished batch", body=name)
        except AssertionError:
            pass
    # cancel paths
    for err in (None, KeyError("why")):
        B, I = _mk_batch(asynq, set_all)
        b = B()
        items = [I(b) for _ in range(2)]
        try:
            b.cancel(err) if err is not None else b.cancel()
        except BaseException as e:
            return fail("cancel() raised", exc=repr(e))
        if b.flushes != 0 or not b.is_cancelled() or not b.is_flushed():
            return fail("cancel must finish the batch without running the body", flushes=b.flushes)
        for it in items:
            e = it.error()
            if err is None and not isinstance(e, batching.BatchCancelledError):
                return fail("cancelled item error type", e=repr(e))
            if err is not None and e is not err:
                return fail("cancelled item must carry the given error", e=repr(e))
        try:
            b.flush()
            return fail("flush after cancel did not raise")
        except batching.BatchingError:
            pass
    # item.value() flushes a pending batch
    B, I = _mk_batch(asynq, set_all)
    b = B()
    items = [I(b) for _ in range(2)]
    if items[1].value() != 1 or b.flushes != 1 or not b.is_flushed():
        return fail("item.value() must flush its pending batch once", flushes=b.flushes)
    if B().get_priority() != (0, 0) or (lambda bb: (I(bb), I(bb), bb.get_priority())[2])(B()) != (0, 2):
        return fail("default priority is (0, number of items)")
    return None
