# dev helper (see header of tools/mutcheck.py): times / dumps obligations of one function; run with PYTHONPATH=/verif python3-vt
import sys
sys.path.insert(0, "/verif")
import props
from pyvc import verify
quals = sorted({f for p in props.PROPERTIES.values() for f in p.get("functions", ())})
res = verify.verify_many(quals, timeout=10, both=False, root="/repo")
slow = []
for r in res:
    for o in r.get("obligations", []):
        sec = o.get("seconds") or (o.get("result") or {}).get("seconds") or 0
        st = o.get("status") or (o.get("result") or {}).get("status")
        if sec and sec > 8:
            slow.append((round(sec, 1), st, o["name"], (o.get("backend") or (o.get("result") or {}).get("backend")), o.get("trace", [])[-3:]))
slow.sort(reverse=True)
for s in slow[:40]:
    print(s)
print(len(slow), "obligation instances over 8 s")
