"""Shared specification vocabulary: object invariants, two-state invariants,
well-formedness assumptions, environment contracts, diagnostic callees."""
import z3
from pyvc import smt
from pyvc.smt import V, NONE, TRUE, FALSE, NONE_MARK
from pyvc.state import fresh_name
from pyvc.contract import Contract as C


def q(name):
    return z3.Const(fresh_name(name), V)


def register(reg, repo):
    # ---- classes of dependencies that appear in static types -------------
    reg.extra_classes.update({
        "EventHook": ["object"],
        "DecoratorBase": ["object"],
        "DecoratorBinder": ["object"],
        "local": ["object"],
        "Thread": ["object"],
        "ContextVar": ["object"],
        "Token": ["object"],
        "Formatter": ["object"],
        "_patch": ["object"],
        "LRUCache": ["object"],
        "frame": ["object"],
        "traceback": ["object"],
        "coroutine": ["object"],
    })
    reg.presence_fields.update({"_task", "_traceback", "asynq", "async", "is_pure_async_fn", "fn",
                                "gi_frame", "_active_task", "value"})

    # ---- globals ------------------------------------------------------------
    reg.global_values["_none"] = lambda eng: NONE_MARK
    reg.global_values["_futures_none"] = lambda eng: NONE_MARK
    reg.global_values[("futures", "_none")] = lambda eng: NONE_MARK
    reg.global_values["futures._none"] = lambda eng: NONE_MARK
    for name in ["_state", "_debug_batch_state", "none_future", "_none_future", "_empty_tuple",
                 "_empty_dictionary", "END_OF_GENERATOR", "_asyncio_mode", "stdout", "stderr", "logger"]:
        reg.global_values[name] = (lambda n: (lambda eng: smt.const("glob:" + n)))(name)
    reg.global_values[("core_events", "sinking_event_hook")] = lambda eng: smt.const("glob:sinking_event_hook")
    reg.global_values["core_events.sinking_event_hook"] = lambda eng: smt.const("glob:sinking_event_hook")

    # ---- object invariants --------------------------------------------------
    def inv_future(eng, heap):
        """I-Fut: an uncomputed future has no error."""
        f = q("f!inv")
        return [z3.ForAll([f], z3.Implies(
            z3.And(heap.sel("$alloc", f), eng.isinstance_f(f, [eng.ct.cls("FutureBase")]),
                   heap.sel("_value", f) == NONE_MARK),
            heap.sel("_error", f) == NONE),
            patterns=[heap.sel("_value", f)])]
    reg.inv_hooks.append(inv_future)

    def fresh_future(eng, st, o, clsname):
        # modelling choice: the (unreadable) fields of a not-yet-initialised future are the pending defaults
        if eng.ct.is_sub(clsname, "FutureBase"):
            st.heap.store("_value", o, NONE_MARK)
            st.heap.store("_error", o, NONE)
    reg.fresh_hooks.append(fresh_future)

    # ---- two-state invariants (E2) -------------------------------------------
    def ts_alloc(eng, old, new, skip=()):
        x = q("x!ts")
        return [z3.ForAll([x], z3.Implies(old.sel("$alloc", x), new.sel("$alloc", x)),
                          patterns=[new.sel("$alloc", x)])]

    def ts_future(eng, old, new, skip=()):
        """T1: a computed future stays computed with the identical value / error."""
        f = q("f!t1")
        body = [new.sel("_value", f) == old.sel("_value", f),
                new.sel("_error", f) == old.sel("_error", f)]
        if "notif" not in skip:
            body.append(new.sel("$n_notified", f) == old.sel("$n_notified", f))
        return [z3.ForAll([f], z3.Implies(
            z3.And(old.sel("$alloc", f), eng.isinstance_f(f, [eng.ct.cls("FutureBase")]),
                   old.sel("_value", f) != NONE_MARK),
            z3.And(*body)),
            patterns=[new.sel("_value", f)])]
    reg.two_state_hooks.append(ts_alloc)
    reg.two_state_hooks.append(ts_future)

    # ---- well-formedness assumptions from the .pxd types ----------------------
    typed = []
    for mod, pxd in repo.pxd.items():
        for (cls, field), ctype in pxd.fields.items():
            t = ctype.split(".")[-1]
            if t in ("list", "set", "bint"):
                typed.append((cls, field, t))

    def wf_typed(eng, heap):
        out = []
        for cls, field, t in typed:
            if not eng.ct.known(cls):
                continue
            x = q("x!wf")
            guard = z3.And(heap.sel("$alloc", x), eng.isinstance_f(x, [eng.ct.cls(cls)]))
            v = heap.sel(field, x)
            if t == "bint":
                body = V.is_bval(v)
            else:
                body = z3.And(smt.typeof(v) == eng.ct.cls(t), heap.sel("$alloc", v))
            out.append(z3.ForAll([x], z3.Implies(guard, body), patterns=[heap.sel(field, x)]))
        # list lengths are non-negative
        l = q("l!wf")
        out.append(z3.ForAll([l], heap.sel("$llen", l) >= 0, patterns=[heap.sel("$llen", l)]))
        out.append(z3.ForAll([l], heap.sel("$olen", l) >= 0, patterns=[heap.sel("$olen", l)]))
        # distinguished constants are allocated values
        # ints, bools, None and the named constants (classes, markers, globals) always exist
        x = q("x!wfa")
        out.append(z3.ForAll([x], z3.Implies(z3.Or(z3.Not(V.is_obj(x)), V.oid(x) < 0), heap.sel("$alloc", x)),
                             patterns=[heap.sel("$alloc", x)]))
        return out
    reg.wf_hooks.append(wf_typed)

    # ---- diagnostic callees: total, no effect on the heap ---------------------
    # (their own bodies are verified against these contracts in contracts/debug_c.py)
    for name, params, rt in [
        ("env.diag", ["*args", "**kwargs"], None),
        ("env.diag_str", ["*args", "**kwargs"], "str"),
    ]:
        reg.add(C(name, params=params, modifies=[], post=[], xpost=None, trusted=True, returns_type=rt,
                  note="diagnostic sink: total, touches only stdout/stderr"))
    for text in ["traceback.print_exc", "stdout.flush", "stderr.flush", "stdout.write", "stderr.write",
                 "print"]:
        reg.global_calls[text] = "env.diag"

    # qcore.errors
    reg.add(C("qcore.errors.reraise", params=["error"], modifies=[], post=["False"], xpost=["exc is error"],
              trusted=True, note="qcore.errors.reraise raises its argument (with its stored traceback)"))
    reg.add(C("qcore.errors.prepare_for_reraise", params=["error", "exc_info"], defaults={"exc_info": "None"},
              modifies=["_traceback", "_type_", "$has:_traceback"], post=["hasattr(error, '_traceback')",
              "only(error, '_traceback', '_type_', '$has:_traceback')"], xpost=None, trusted=True,
              note="qcore.errors.prepare_for_reraise stores error._traceback/_type_"))

    # qcore.events.EventHook
    notif_post = ["arg.$n_notified == old(arg.$n_notified) + 1",
                  "all(implies(old(computed(f)) and f is not arg, f.$n_notified == old(f.$n_notified)) for f in objs(FutureBase))"]
    reg.add(C("EventHook.safe_trigger", params=["self", "arg"], modifies="*", trusted=True,
              post=notif_post, xpost=notif_post + ["isinstance(exc, Exception)"],
              labels={"ts_skip": ("notif",)},
              note="qcore EventHook.safe_trigger: calls every handler once, then re-raises the first error; "
                   "handlers are unknown code (E1/E2); handlers raise only Exception (assumed)"))
    reg.add(C("EventHook.trigger", params=["self", "arg"], modifies="*", trusted=True,
              post=[], xpost=["True"], note="EventHook.trigger: stops at the first failing handler"))
    reg.add(C("EventHook.__call__", params=["self", "arg"], modifies="*", trusted=True,
              post=[], xpost=["True"], note="EventHook() = trigger"))
    reg.add(C("EventHook.subscribe", params=["self", "handler"], modifies=["$subs"], trusted=True,
              post=[], xpost=None))

    # calling an unknown function value (value providers, user callbacks)
    reg.add(C("env.call0", params=["fn"], kind="callvalue", modifies="*", trusted=True,
              post=["fn.$n_calls == old(fn.$n_calls) + 1", "result is not _none"], xpost=["fn.$n_calls == old(fn.$n_calls) + 1"],
              note="unknown callable: arbitrary code under E1/E2; ghost $n_calls counts invocations"))
