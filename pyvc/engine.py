"""Engine: shared vocabulary (classes, options, truthiness, invariants) and the
obligation discharge back end."""
import subprocess
import tempfile
import os
import time
import z3
from . import smt
from .smt import V, NONE, TRUE, FALSE, NONE_MARK
from .state import fresh_name


INT_OPTIONS = {"MAX_TASK_STACK_SIZE", "SCHEDULER_STATE_DUMP_INTERVAL", "DEBUG_STR_REPR_MAX_LENGTH",
               "STACK_DUMP_LIMIT"}


class Obligation:
    def __init__(self, fn, kind, label, pc, goal, trace, lineno=None, expect_sat=False):
        self.fn = fn
        self.kind = kind
        self.label = label
        self.pc = list(pc)
        self.goal = goal
        self.trace = list(trace)
        self.lineno = lineno
        self.expect_sat = expect_sat   # cover obligations: pc ∧ goal must be satisfiable
        self.status = None             # 'discharged' | 'failed' | 'unknown'
        self.backend = None
        self.seconds = 0.0
        self.model = None
        self.reason = ""
        self.facts = []               # relevant array-level well-formedness facts
        self.parts = None             # [(label, formula)]: goal is their conjunction; split only for diagnosis
        self.soft = False             # exit-path cover: a dead path is legitimate; only "every normal exit dead" fails

    @property
    def name(self):
        return "%s#%s%s" % (self.fn, self.kind, (":" + self.label) if self.label else "")


class Engine:
    def __init__(self, repo, reg):
        self.repo = repo
        self.reg = reg
        self.ct = smt.ClassTable()
        for name, bases in repo.class_bases().items():
            bs = [b if (b in repo.class_bases() or b in smt.BUILTIN_CLASSES or b in reg.extra_classes) else "object"
                  for b in bases]
            self.ct.add(name, bs)
        for name, bases in reg.extra_classes.items():
            if not self.ct.known(name) or name not in repo.class_bases():
                self.ct.add(name, bases)
        self._opts = {}

    # ---- vocabulary ------------------------------------------------------
    def option(self, name):
        if name not in self._opts:
            if name in INT_OPTIONS:
                self._opts[name] = z3.Int("opt!" + name)
            else:
                self._opts[name] = z3.Bool("opt!" + name)
        return self._opts[name]

    def isinstance_f(self, x, classes):
        cs = [smt.subclass(smt.typeof(x), k) for k in classes]
        return z3.Or(*cs) if len(cs) > 1 else cs[0]

    def truthy(self, v, heap):
        if smt.is_bval_app(v):
            return v.arg(0)
        if v.eq(NONE):
            return z3.BoolVal(False)
        if smt.is_boxed(v):
            return v.arg(0) != 0
        ct = self.ct
        t = smt.typeof_u(v)
        return z3.If(V.is_bval(v), V.bv(v),
               z3.If(V.is_none(v), False,
               z3.If(V.is_ival(v), V.iv(v) != 0,
               z3.If(t == ct.cls("list"), heap.sel("$llen", v) > 0,
               z3.If(t == ct.cls("tuple"), smt.tlen(v) > 0,
               z3.If(z3.Or(t == ct.cls("dict"), t == ct.cls("OrderedDict")), heap.sel("$olen", v) > 0,
                     smt.truthy_u(v)))))))

    def inv(self, heap):
        out = []
        for h in self.reg.inv_hooks:
            out.extend(h(self, heap))
        return out

    def wf(self, heap):
        out = []
        for h in self.reg.wf_hooks:
            out.extend(h(self, heap))
        return out

    def two_state(self, old, new, skip=()):
        out = []
        for h in self.reg.two_state_hooks:
            out.extend(h(self, old, new, skip))
        return out

    def axioms(self):
        ax, cs = self.ct.axioms()
        ax = ax + smt.base_axioms(self.ct)
        ax.append(smt.distinct_consts())
        c = z3.Const("c!dj", V)
        for a, b in self.reg.disjoint_classes:
            if a in self.ct.used and b in self.ct.used:
                ax.append(z3.ForAll([c], z3.Not(z3.And(smt.subclass(c, self.ct.cls(a)), smt.subclass(c, self.ct.cls(b)))),
                                    patterns=[smt.subclass(c, self.ct.cls(a))]))
        for name, o in self._opts.items():
            if name == "MAX_TASK_STACK_SIZE":
                ax.append(o >= 1)
        return ax


# ---------------------------------------------------------------------------
# discharge

def _mk_solver(timeout_ms):
    s = z3.Solver()
    s.set("timeout", timeout_ms)
    # deterministic seeds
    s.set("random_seed", 0)
    return s


def smtlib_of(assertions):
    s = z3.Solver()
    for a in assertions:
        s.add(a)
    return s.to_smt2()


def run_cvc5(smt2, timeout_s):
    with tempfile.NamedTemporaryFile("w", suffix=".smt2", delete=False, dir=os.environ.get("TMPDIR", "/tmp")) as f:
        f.write("(set-logic ALL)\n" + smt2.replace("(set-logic ALL)", ""))
        path = f.name
    try:
        p = subprocess.run(["/usr/bin/cvc5", "--tlimit=%d" % int(timeout_s * 1000), path],
                           capture_output=True, text=True, timeout=timeout_s + 5)
        out = p.stdout.strip().splitlines()
        return out[0] if out else "unknown"
    except Exception:
        return "unknown"
    finally:
        try:
            os.unlink(path)
        except OSError:
            pass


def consts_of(exprs):
    seen, out, todo = set(), set(), list(exprs)
    while todo:
        e = todo.pop()
        i = e.get_id()
        if i in seen:
            continue
        seen.add(i)
        if z3.is_quantifier(e):
            todo.append(e.body())
        elif z3.is_app(e):
            if e.num_args() == 0 and e.decl().kind() == z3.Z3_OP_UNINTERPRETED:
                out.add(e.decl().name())
            else:
                todo.extend(e.children())
    return out


def discharge(eng, ob, timeout_s=10, use_cvc5=True, both=False):
    """Decide one obligation.  unsat of (axioms ∧ pc ∧ ¬goal) -> discharged;
    sat -> failed with model; unknown -> undecided."""
    t0 = time.time()
    ax = eng.axioms() + list(ob.facts)
    if ob.expect_sat:
        # cover: axioms ∧ pc ∧ goal satisfiable
        s = _mk_solver(int(min(timeout_s, 1.5) * 1000))
        s.add(*ax)
        s.add(*ob.pc)
        s.add(ob.goal)
        r = s.check()
        ob.seconds = time.time() - t0
        ob.backend = "z3"
        if r == z3.sat:
            ob.status = "discharged"
            ob.reason = "hypotheses satisfiable (model found)"
        elif r == z3.unsat:
            ob.status = "failed"
            ob.reason = "cover unreachable: hypotheses are contradictory"
        else:
            # vacuity guard: the hypotheses could not be refuted within the budget
            ob.status = "discharged"
            ob.reason = "hypotheses not refutable within budget (no model either)"
        return ob
    hyps = list(ax) + list(ob.pc) + [z3.Not(ob.goal)]

    def attempt(ms, mbqi):
        s = _mk_solver(ms)
        if mbqi:
            s.set("smt.mbqi", True)
            s.set("smt.ematching", False)
        s.add(*hyps)
        return s, s.check()

    # stage 1: E-matching, short budget (valid obligations close in milliseconds)
    # stage 2: model-based instantiation (finds counter-models; also proves some goals)
    # stage 3: E-matching, full budget
    stages = [(int(min(timeout_s, 2) * 1000), False, "z3"), (int(timeout_s * 1000), True, "z3-mbqi"),
              (int(timeout_s * 1000), False, "z3")]
    r, s = z3.unknown, None
    for ms, mbqi, name in stages:
        s, r = attempt(ms, mbqi)
        ob.backend = name
        if r != z3.unknown:
            break
    if r == z3.unsat:
        ob.status = "discharged"
        if both and use_cvc5:
            r2 = run_cvc5(s.to_smt2(), timeout_s)
            if r2 == "sat":
                ob.status = "unknown"
                ob.reason = "back-end disagreement: z3 unsat, cvc5 sat"
            elif r2 == "unsat":
                ob.backend += "+cvc5"
    elif r == z3.sat:
        ob.status = "failed"
        ob.model = s.model()
        ob.reason = "z3 sat"
    else:
        ob.reason = "z3 unknown: " + s.reason_unknown()
        if os.environ.get("PYVC_DUMP_DIR"):
            fn = os.path.join(os.environ["PYVC_DUMP_DIR"], ob.name.replace("/", "_").replace("#", "__") + ".smt2")
            open(fn, "w").write(s.to_smt2())
        ob.status = "unknown"
        if use_cvc5:
            r2 = run_cvc5(s.to_smt2(), timeout_s)
            if r2 == "unsat":
                ob.status = "discharged"
                ob.backend = "cvc5"
            elif r2 == "sat":
                ob.status = "failed"
                ob.backend = "cvc5"
                ob.reason = "cvc5 sat (no model extracted)"
    ob.seconds = time.time() - t0
    return ob


# ---------------------------------------------------------------------------
# text-level interface: obligations are serialised to SMT-LIB2 in the process that
# generated them and solved in a pool of solver processes

def relevant_hyps(hyps, goal, rounds=3):
    """Goal-directed selection of hypotheses (sound: dropping hypotheses only weakens them): keep the
    hypotheses connected to the goal through shared non-ubiquitous symbols."""
    syms = [consts_of([h]) for h in hyps]
    freq = {}
    for ss in syms:
        for n in ss:
            freq[n] = freq.get(n, 0) + 1
    ubiq = {n for n, c in freq.items() if c > max(8, 0.35 * len(hyps))}
    cur = set(consts_of([goal])) - ubiq
    keep = set()
    for _ in range(rounds):
        added = False
        for i, ss in enumerate(syms):
            if i in keep:
                continue
            if not ss or (ss - ubiq) & cur:
                keep.add(i)
                cur |= (ss - ubiq)
                added = True
        if not added:
            break
    return [h for i, h in enumerate(hyps) if i in keep]


def serialize(eng, ob, reduced=False):
    s = z3.Solver()
    hyps = eng.axioms() + list(ob.facts) + list(ob.pc)
    if reduced:
        hyps = eng.axioms() + relevant_hyps(list(ob.facts) + list(ob.pc), ob.goal)
    for a in hyps:
        s.add(a)
    if ob.expect_sat:
        s.add(ob.goal)
        return s.to_smt2(), 0
    g_all = z3.Bool("g!all")
    s.add(z3.Implies(g_all, z3.Not(ob.goal)))
    n = 0
    if ob.parts and len(ob.parts) > 1:
        for i, (_lab, f) in enumerate(ob.parts):
            s.add(z3.Implies(z3.Bool("g!%d" % i), z3.Not(f)))
        n = len(ob.parts)
    return s.to_smt2(), n


def _check(text, assumption, ms, mbqi):
    s = z3.Solver()
    s.set("timeout", ms)
    s.set("random_seed", 0)
    if mbqi:
        s.set("smt.mbqi", True)
        s.set("smt.ematching", False)
    s.from_string(text)
    r = s.check(*( [z3.Bool(assumption)] if assumption else []))
    return s, r


def _model_summary(m, limit=40):
    out = {}
    for d in m.decls():
        n = d.name()
        if n.startswith("p!") or n.startswith("opt!") or n.startswith("cv!"):
            try:
                out[n] = str(m[d])
            except Exception:
                pass
        if len(out) >= limit:
            break
    return out


def solve_text(text, nparts, timeout_s, expect_sat=False, use_cvc5=True, both=False, reduced_text=None):
    """-> dict(status, backend, seconds, reason, model, model_text, failed_parts, unknown_parts)"""
    t0 = time.time()
    out = {"status": None, "backend": "z3", "reason": "", "model": {}, "model_text": "", "failed_parts": [], "unknown_parts": []}
    if expect_sat:
        s, r = _check(text, None, int(min(timeout_s, 1.5) * 1000), False)
        if r == z3.unsat:
            out["status"] = "failed"
            out["reason"] = "cover unreachable: hypotheses are contradictory"
        else:
            out["status"] = "discharged"
            out["reason"] = "hypotheses satisfiable" if r == z3.sat else "hypotheses not refutable within budget"
        out["seconds"] = time.time() - t0
        return out

    def staged(assumption):
        # 1: E-matching, short; 2: goal-directed hypothesis subset (proof only); 3: MBQI (counter-models);
        # 4: E-matching, full budget
        stages = [(int(min(timeout_s, 2) * 1000), False, "z3", text),
                  (int(timeout_s * 1000), False, "z3-relevant-hyps", reduced_text),
                  (int(timeout_s * 1000), True, "z3-mbqi", text),
                  # the last resort gets three times the budget: an obligation that needs it is the kind whose verdict would
                  # otherwise flip when all cores are busy
                  (int(timeout_s * 3000), False, "z3", text)]
        s, r, name = None, z3.unknown, "z3"
        for k, (ms, mbqi, name, tx) in enumerate(stages):
            if tx is None:
                continue
            if k == 2 and assumption == "g!all" and nparts and nparts > 1:
                # a conjunctive goal that resists the short stages: its conjuncts are usually easy one by one, and proving
                # them separately is much more stable under load than one long run on the conjunction
                ok = True
                for i in range(nparts):
                    si, ri = _check(text, "g!%d" % i, int(timeout_s * 1000), False)
                    if ri != z3.unsat:
                        ok = False
                        break
                if ok:
                    return si, z3.unsat, "z3 (per conjunct)"
            s, r = _check(tx, assumption, ms, mbqi)
            if tx is reduced_text and r != z3.unsat:
                r = z3.unknown          # a model of fewer hypotheses refutes nothing
                continue
            if r != z3.unknown:
                break
        return s, r, name

    s, r, name = staged("g!all")
    out["backend"] = name
    if r == z3.unsat:
        out["status"] = "discharged"
        if both and use_cvc5:
            r2 = run_cvc5(text + "\n(assert g!all)\n", timeout_s)
            if r2 == "sat":
                out["status"] = "unknown"
                out["reason"] = "back-end disagreement: z3 unsat, cvc5 sat"
            elif r2 == "unsat":
                out["backend"] += "+cvc5"
    else:
        if r == z3.sat:
            out["status"] = "failed"
            out["reason"] = "z3 sat"
            m = s.model()
            out["model"] = _model_summary(m)
            out["model_text"] = str(m)[:6000]
        else:
            out["status"] = "unknown"
            out["reason"] = "z3 unknown: " + s.reason_unknown()
            if use_cvc5:
                r2 = run_cvc5(text + "\n(assert g!all)\n", timeout_s)
                if r2 == "unsat":
                    out["status"] = "discharged"
                    out["backend"] = "cvc5"
                elif r2 == "sat":
                    out["status"] = "failed"
                    out["backend"] = "cvc5"
                    out["reason"] = "cvc5 sat (no model extracted)"
        if out["status"] != "discharged" and nparts:
            # which conjunct?
            for i in range(nparts):
                si, ri, _n = staged("g!%d" % i)
                if ri == z3.sat:
                    out["failed_parts"].append(i)
                    if not out["model"]:
                        m = si.model()
                        out["model"] = _model_summary(m)
                        out["model_text"] = str(m)[:6000]
                elif ri != z3.unsat:
                    out["unknown_parts"].append(i)
            if out["failed_parts"]:
                out["status"] = "failed"
                out["reason"] = "z3 sat (conjunct)"
            elif not out["unknown_parts"] and out["status"] == "unknown":
                # every conjunct proved separately
                out["status"] = "discharged"
                out["backend"] = "z3 (per conjunct)"
                out["reason"] = ""
    out["seconds"] = time.time() - t0
    return out
