#!/bin/sh
# apply a seeded change to /repo, run the given checks, undo it straight afterwards
id=$1; shift
cd /verif
git -C /repo apply /verif/seeded/$id/patch.diff || exit 2
for p in "$@"; do
  ./check $p 2>/dev/null | grep -E "^C[0-9]+ \[|VIOLATION|UNDECIDED|KNOWN|CHECKER" | cut -c1-230 | head -8
  echo "   -> $p rc=$?"
done
git -C /repo checkout -- .
git -C /repo status --short | head -2
