"""Which obligations constitute each property (C01..C20), property-level
lemmas, structural obligations, bounded stand-ins and replay dispatch."""
import json
import os
import shutil
import subprocess
import tempfile

HERE = os.path.dirname(os.path.abspath(__file__))
REPO = os.environ.get("ASYNQ_VERIF_REPO", "/repo")

COMMON_ASSUMPTIONS = [
    "pyvc (AST->VC generator, symbolic executor, theory encoding) is trusted; mitigated by deliberate-mutation runs and two back ends",
    "Python integers are mathematical; only .pxd C-typed fields get range obligations (C20)",
    "`is` is reference equality; attribute access follows the class bodies in the AST (no monkey-patching, no metaclasses)",
    "generator / exception / try-finally / with protocols as in the language reference; dict preserves insertion order; set iteration order adversarial",
    "Cython compiles the same statements with the same meaning apart from .pxd C types and cdef static dispatch",
    "E1: unknown code (task bodies, subscribers, user batch hooks, providers, contexts) touches asynq objects only through public methods, never reset_unsafe",
    "E2: every object invariant and the two-state invariants T1-T6 hold across unknown code because every public method under contract proves them (inv/two-state obligations)",
    "E5: unknown code does not ask a batch item for its value while that item's batch is completing its items",
    "subscribers raise only Exception (BaseException from an on_computed callback is documented by the code as leaving the scheduler in a bad state)",
    "fresh objects: the unreadable fields of a not-yet-initialised object are modelled with pending defaults (_value=_none, _error=None, batch=None)",
    "assert statements are executed (python -O removes them)",
]

F = "futures."
B = "batching."

S = "scheduler.TaskScheduler."
T = "async_task.AsyncTask."
X = "contexts."
SV = "scoped_value."

FUT = [F + n for n in [
    "FutureBase.__init__", "FutureBase.is_computed", "FutureBase.value", "FutureBase.__call__",
    "FutureBase.error", "FutureBase.set_value", "FutureBase.set_error", "FutureBase.reset_unsafe",
    "FutureBase._computed", "FutureBase._compute", "FutureBase.raise_if_error",
    "Future.__init__", "Future._compute", "ConstFuture.__init__", "ErrorFuture.__init__"]]
BAT = [B + n for n in [
    "BatchBase.__init__", "BatchBase.is_flushed", "BatchBase.is_cancelled", "BatchBase.is_empty",
    "BatchBase.get_priority", "BatchBase.flush", "BatchBase.cancel", "BatchBase._compute",
    "BatchBase._computed", "BatchItemBase.__init__", "BatchItemBase._compute"]]
STEP = [T + n for n in ["_continue", "_continue_on_generator", "_accept_yield_result", "_queue_exit",
                        "_queue_throw_error", "_accept_error", "_compute", "_computed", "is_blocked", "__init__",
                        "can_continue"]]
CTX = [T + n for n in ["_enter_context", "_leave_context", "_pause_contexts", "_resume_contexts"]]

A_ENV_GEN = ("the task body is unknown code behind generator.send/throw/close (environment contract E1/E2); E4: awaiting is acyclic - "
             "while a task's body runs or its context hooks run nothing re-enters that task (site assumptions in contracts/*_c.py)")
A_UNWRAP = ("unwrap's body is verified twice against one-level unfoldings of the relation R_unwrap (same shape, futures replaced by their "
            "values; R_unwrap is the least relation closed under the introduction rules R_intro): in general (async_task.unwrap) and under "
            "'every future inside the value is computed' (async_task.unwrap!computed: runs no unknown code, writes only containers it created), "
            "which is the contract _continue uses.  Site assumptions of _continue: (A) the dependencies of a suspended task still cover every "
            "future inside its last yielded value (proved when the value is accepted, assumed to survive the suspension: yielded containers are "
            "not mutated meanwhile); (W) an exception stored in a future never carries the private marker.  extract_futures' body is verified "
            "against one-level unfoldings of Leaf/EFN/EFS/EFP (count, soundness, completeness, segment of every member right-to-left / dict "
            "values left-to-right) under the assumption that the scanned structure is a finite acyclic nest that is not mutated during the scan "
            "and does not contain the accumulator; order at depth and the 'first failing leaf in structure order' clause of unwrap are covered "
            "by the bounded stand-in bounded:structures (all yielded structures to depth 2/3, width 3), labelled bounded, not proved")

PROPERTIES = {
    "C01": {
        "functions": [T + "_continue", T + "_continue_on_generator", T + "_accept_yield_result", T + "_queue_exit", "async_task.unwrap", "async_task.unwrap!computed", "async_task.extract_futures",
                      T + "_compute", T + "_computed", F + "FutureBase.value", F + "FutureBase.set_value",
                      S + "wait_for", S + "_execute", S + "_continue_with_task"],
        "assumptions": [A_ENV_GEN, A_UNWRAP,
                        "composition argument (prose, DESIGN.md C01): a generator is a deterministic function of the values sent into it, so per-step contracts give equality with sequential evaluation by induction over the finite acyclic computation"],
        "bounded": [{"name": "structures", "quick": True}],
        "not_proved": ["whole-program equality with sequential evaluation (composition argument)", "composition of the one-level unwrap/extract_futures contracts over nesting depth (bounded: structures)"],
    },
    "C02": {
        "functions": [T + "_continue", T + "_accept_error", T + "_queue_throw_error", T + "is_blocked", "async_task.unwrap", "async_task.unwrap!computed",
                      T + "_continue_on_generator", S + "_handle_async_task", S + "_execute",
                      F + "Future._compute", F + "FutureBase.value", F + "FutureBase.raise_if_error", F + "FutureBase.set_error",
                      B + "BatchBase._compute", B + "BatchBase._computed"],
        "assumptions": [A_ENV_GEN, A_UNWRAP, "qcore.errors.reraise raises its argument"],
        "bounded": [{"name": "structures", "quick": True}],
    },
    "C03": {
        "functions": [T + "is_blocked", T + "_continue", T + "_continue_on_generator", T + "__init__", T + "_computed",
                      T + "_accept_yield_result", "async_task.extract_futures", S + "_handle_async_task", S + "_execute", S + "_continue_with_task",
                      S + "wait_for"],
        "assumptions": [A_ENV_GEN, A_UNWRAP, "termination is not decided (liveness); lemma cnt-monotone is proved by its two induction cases"],
        "lemmas": ["cnt-monotone"],
        "not_proved": ["termination / very deep chains (liveness)", "the DFS postcondition Settled of _execute (see C04)"],
    },
    "C04": {
        "functions": [S + "_execute", S + "wait_for", S + "_continue_with_batch", S + "_handle_async_task",
                      S + "_schedule_batch", S + "_continue_with_task", S + "_select_batch_to_flush",
                      "async_task.extract_futures", T + "_accept_yield_result"],
        "assumptions": [A_ENV_GEN, A_UNWRAP],
        "lemmas": ["cnt-monotone"],
        "not_proved": ["the protocol-level inductive invariant Settled (every unfinished task blocked on an unflushed item) is not discharged: "
                       "what is proved are the local contracts it rests on (first visit pushes every uncomputed dependency in order, second visit pops and "
                       "clears the flag, unblocked tasks are continued, exactly one flush between two passes, nothing flushed once the task is computed)"],
    },
    "C05": {
        "functions": [S + "_select_batch_to_flush", S + "_continue_with_batch", S + "_flush_batch", S + "wait_for",
                      S + "_schedule_batch", B + "BatchBase.flush", B + "BatchBase._compute", B + "BatchBase._computed",
                      B + "BatchBase.get_priority", B + "BatchBase.is_flushed", B + "BatchBase.is_empty",
                      B + "BatchItemBase._compute"],
        "assumptions": ["get_priority() is pure, deterministic and totally ordered (strict weak order axioms) while the scheduler selects",
                        "user _flush/_cancel/_try_switch_active_batch obey the environment contracts (E1-E3)"],
    },
    "C06": {
        "functions": CTX + [X + n for n in ["enter_context", "leave_context", "AsyncContext.__enter__", "AsyncContext.__exit__",
                                             "NonAsyncContext.__enter__", "NonAsyncContext.__exit__", "NonAsyncContext.pause",
                                             "NonAsyncContext.resume"]] + [S + "_handle_async_task", S + "_continue_with_task"],
        "assumptions": [A_ENV_GEN, "user pause()/resume() hooks obey env.ctx.pause/resume (ghost counters and timestamps; E4'': do not advance pre-existing tasks)",
                        "a context object is entered at most once at a time in a task"],
        "not_proved": ["global alternation across tasks (needs the Settled/J4 invariant of _execute)"],
    },
    "C07": {
        "functions": [T + "_pause_contexts", T + "_resume_contexts"] + [SV + n for n in [
            "AsyncScopedValue.__init__", "AsyncScopedValue.get", "AsyncScopedValue.set", "AsyncScopedValue.override",
            "AsyncScopedValue.__call__", "_AsyncScopedValueOverrideContext.__init__", "_AsyncScopedValueOverrideContext.resume",
            "_AsyncScopedValueOverrideContext.pause", "_AsyncPropertyOverrideContext.__init__",
            "_AsyncPropertyOverrideContext.resume", "_AsyncPropertyOverrideContext.pause"]] + [S + "_handle_async_task"] +
                     [X + n for n in ["enter_context", "leave_context", "AsyncContext.__enter__", "AsyncContext.__exit__"]],
        "assumptions": [A_ENV_GEN],
        "lemmas": ["lifo-save-restore"],
    },
    "C08": {
        "functions": [S + "_continue_with_task", S + "_execute", S + "reset", S + "wait_for", S + "_handle_async_task",
                      T + "_continue", T + "_continue_on_generator"],
        "assumptions": [A_ENV_GEN, "context hooks and value providers do not trip (and swallow) the runaway-recursion guard of the scheduler they run under"],
    },
    "C09": {
        "functions": ["decorators." + n for n in [
            "has_async_fn", "get_async_or_sync_fn", "PureAsyncDecorator.asyncio", "PureAsyncDecorator._call_pure",
            "PureAsyncDecorator.__call__", "AsyncDecorator.asynq", "AsyncDecorator.__call__", "AsyncDecoratorBinder.asynq",
            "AsyncDecoratorBinder.asyncio", "AsyncAndSyncPairDecorator.__call__", "AsyncAndSyncPairDecoratorBinder.__call__",
            "AsyncProxyDecorator._call_pure", "AsyncAndSyncPairProxyDecorator.__call__", "AsyncWrapper._call_async",
            "AsyncWrapper.asynq", "AsyncAndSyncPairDecorator.__get__"]] + ["utils.result", "async_task.AsyncTaskResult.__init__"],
        "assumptions": ["qcore.decorators.DecoratorBase.__get__/__init__, DecoratorBinder.__call__ and decorate() (compiled dependency) bind "
                        "(decorator, instance) as their shipped source says: assumed; the finite matrix decorator x binding x argument pattern x "
                        "body kind is exercised by the bounded stand-in conventions_agree",
                        "the decorated function, sync_fn and task class are unknown callables (env.fncall)"],
        "not_proved": ["descriptor binding inside qcore.decorators", "is_pure_async_fn / get_async_fn / async_call case analysis (bounded only)"],
    },
    "C15": {
        "functions": ["asynq_to_async." + n for n in ["is_asyncio_mode", "AsyncioMode.__enter__", "AsyncioMode.__exit__", "_gather"]] + [
            "decorators.PureAsyncDecorator._call_pure", "decorators.AsyncDecorator.__call__", "decorators.AsyncAndSyncPairDecorator.__call__",
            "decorators.PureAsyncDecorator.asyncio", "decorators.AsyncProxyDecorator._call_pure"],
        "assumptions": ["asyncio.ensure_future / asyncio.wait(ALL_COMPLETED) / Task.result / Task.exception and ContextVar.set/reset/get behave as "
                        "documented (environment contracts env.asyncio.*, env.ctxvar.*); awaiting ALL_COMPLETED completes every task (site assumption)",
                        "the event loop itself is outside reach"],
        "not_proved": ["the generator driver convert_asynq_to_async.<wrapped> and resolve_awaitables are not discharged in this round (dict "
                       "comprehension / loop invariant over the mode object): bounded stand-in asyncio_matches_asynq",
                       "equivalence with fn(args) for whole programs (composition argument)"],
    },
    "C19": {
        "functions": ["mock_." + n for n in ["_AsynqWrapper.__call__", "_AsynqWrapper.__setattr__", "_AsynqWrapper.__getattr__",
                                             "_AsyncioWrapper.__setattr__", "_AsyncioWrapper.__getattr__", "_AsynqWrapper.__init__",
                                             "_AsyncioWrapper.__init__", "_PatchAsync.__enter__", "_maybe_wrap_new"]],
        "structural": ["mock-restoration-delegated"],
        "assumptions": ["unittest.mock._patch.__enter__/__exit__/start/stop restore as documented (restoration is entirely delegated: structural obligation); "
                        "the finite matrix target kind x replacement kind x activation style x exit path is exercised by the bounded stand-in mock_patch_all_conventions"],
        "not_proved": ["restoration itself (unittest.mock)", "_AsyncioWrapper.__call__ (nested async def), patch/_patch_object/_make_patch_async argument forwarding (bounded only)"],
    },
    "C12": {
        "functions": ["tools.DeduplicateDecorator.asynq", "tools.DeduplicateDecorator.asynq.callback", "tools.DeduplicateDecorator.dirty"],
        "structural": ["dedup-key-thread"],
        "assumptions": ["the wrapped function and the key getter are unknown code (env.callstar / opaque deterministic key); argument normalisation "
                        "(qcore.caching.get_args_tuple over args + kwonlyargs) is exercised by the bounded stand-in, not proved"],
        "not_proved": ["key normalisation across spellings (bounded)", "history quantifier: invariant + per-call contract (meta-theorem)"],
    },
    "C13": {
        "functions": ["tools.alru_cache.decorator.wrapper", "tools.alazy_constant.decorator.wrapper", "tools.alazy_constant.decorator.dirty"],
        "assumptions": ["qcore.caching.LRUCache get/set contract (hit returns stored value, miss raises KeyError) is assumed; eviction order and key "
                        "construction are exercised by the bounded reference-cache stand-in, not proved"],
        "not_proved": ["LRU eviction, per-instance caches (acached_per_instance), ttl arithmetic: bounded stand-in only"],
    },
    "C14": {
        "functions": ["tools.aretry.decorator.wrapper"],
        "structural": ["one-yield-per-helper"],
        "assumptions": ["built-in map/filter/sorted/max/min/compress/zip semantics are not axiomatised in this round: equality with the built-ins is "
                        "covered by the bounded stand-in helpers_match_builtins (labelled bounded)"],
        "not_proved": ["equality with the built-in counterparts (bounded stand-in only)", "aretry attempt count formula (bounded)"],
    },
    "C16": {
        # AsyncTask._compute looks the scheduler up on the computing thread (scheduler.get_scheduler() at call time); __init__ stores none
        "functions": [S + "reset", T + "_compute", T + "__init__"],
        "structural": ["ownership-inventory", "thread-local-roots", "dedup-key-thread"],
        "assumptions": ["CPython's GIL makes single dict/list operations atomic; threading.local / ContextVar behave as documented; user objects are not shared between threads",
                        "isolation under all OS-thread interleavings follows from the ownership discipline by the separation argument (prose); the interleavings themselves are only smoke-tested (bounded)"],
        "not_proved": ["the literal 'all OS thread interleavings' quantifier"],
    },
    "C17": {
        "functions": ["generator." + n for n in ["Value.__init__", "Value.__repr__", "_AsyncGenerator.__init__", "_AsyncGenerator.__iter__",
                                                  "_AsyncGenerator.__repr__", "_AsyncGenerator._get_one_value", "_AsyncGenerator.send",
                                                  "_AsyncGenerator._send_inner", "list_of_generator", "take_first"]],
        "assumptions": ["the user's generator body and the scheduler's resumption of `yield` are environment contracts (env.usergen.send, env.yield, env.iter.next)"],
        "not_proved": ["'exactly the Values in program order' needs a model of the user body: bounded stand-in generators_deliver_values"],
    },
    "C18": {
        "functions": ["debug.filter_traceback", "generator._AsyncGenerator.__repr__", "generator.Value.__repr__",
                      "debug.write", "debug.str", "debug.repr", "debug.format_error", "debug.format_asynq_stack",
                      "futures.FutureBase.__repr__", "futures.FutureBase.dump", "batching.BatchBase.__str__", "batching.BatchBase.to_str",
                      "batching.BatchItemBase.to_str", "batching.BatchBase.dump", "scheduler.TaskScheduler.__str__",
                      "scheduler.TaskScheduler.__repr__", "scheduler.TaskScheduler.dump", "async_task.AsyncTask.__str__",
                      "async_task.AsyncTask.to_str", "async_task.AsyncTask.dump", "async_task.AsyncTask._traceback_line",
                      "async_task.AsyncTask.traceback", "scoped_value.AsyncScopedValue.__str__", "scoped_value.AsyncScopedValue.__repr__",
                      "scoped_value._AsyncScopedValueOverrideContext.__repr__", "scoped_value._AsyncPropertyOverrideContext.__repr__"],
        "assumptions": ["traceback lines are opaque; `pattern in line` is an uninterpreted containment predicate", "repr/str of user payloads, qcore.inspection / safe_str, traceback.*, pygments are total"],
        "not_proved": ["traceback gluing across task levels (CPython traceback objects): bounded stand-in",
                       "extract_tb / format_tb / dump_error / debug.dump: bounded stand-in only"],
    },
    "C20": {
        "functions": [S + "_continue_with_batch", S + "_flush_batch", S + "_continue_with_task", S + "_handle_async_task", S + "_execute",
                      S + "_schedule_batch", S + "_select_batch_to_flush", S + "wait_for", B + "BatchBase.flush", F + "FutureBase._computed", T + "_continue_on_generator",
                      T + "__init__", B + "BatchItemBase.__init__", T + "_accept_yield_result", T + "_queue_exit", T + "_accept_error",
                      T + "_computed", T + "collect_perf_stats", T + "dump_perf_stats", T + "to_str"],
        "structural": ["option-erasure", "carith-clock-fields"],
        "assumptions": ["options are not toggled while tasks are alive", "debug.write/str/repr/dump are total and touch only stdout/stderr (C18); the name of a task (to_str, used by profiling) is proved not to raise even when repr() of an argument does",
                        "ENABLE_COMPLEX_ASSERTIONS guards an assertion of a documented precondition"],
    },
    "C10": {
        "functions": FUT + [T + "_queue_exit", T + "_queue_throw_error", T + "_accept_error", T + "_computed",
                            B + "BatchBase._compute", B + "BatchBase._computed", B + "BatchBase.flush", B + "BatchBase.cancel",
                            B + "BatchItemBase._compute"],
        "assumptions": ["qcore.events.EventHook.safe_trigger calls every handler once then re-raises the first error (contract written from its shipped source)",
                        "qcore.errors.reraise raises its argument"],
        "not_proved": ["induction over the operation history is the standard meta-theorem (object invariant + per-operation contract), not machine-checked"],
    },
    "C11": {
        "functions": BAT + [F + "FutureBase.set_value", F + "FutureBase.set_error", F + "FutureBase.error", F + "FutureBase.value"],
        "assumptions": ["user _flush/_cancel/_try_switch_active_batch obey the environment contracts in contracts/batching_c.py (E1-E3); _cancel and _try_switch_active_batch do not raise (documented requirement)"],
    },
}


for _pid, _P in PROPERTIES.items():
    _P.setdefault("bounded", [])
    if not any(b["name"] == "scenarios" for b in _P["bounded"]):
        _P["bounded"].append({"name": "scenarios", "quick": True})


# ---------------------------------------------------------------------------
def run_lemma(lem, eng, timeout):
    import lemmas
    return lemmas.run(lem, eng, timeout)


def run_structural(name, repo, reg, eng):
    import structural
    return structural.run(name, repo, reg, eng)


def run_bounded(sb, pid, tier, seed):
    import bounded
    return bounded.run(sb, pid, tier, seed)


# ---------------------------------------------------------------------------
# replay on the real code: a scratch pure-Python copy of the working tree, /venv/bin/python
def scratch_copy():
    d = tempfile.mkdtemp(prefix="asynq_replay_")
    os.makedirs(os.path.join(d, "asynq"))
    src = os.path.join(REPO, "asynq")
    for f in os.listdir(src):
        if f.endswith((".py", ".pyi")) or f == "py.typed":
            shutil.copy(os.path.join(src, f), os.path.join(d, "asynq", f))
    return d


def replay(pid, obligation, function, inst):
    """Run the replay scenarios registered for the failing function against
    the real code; the first scenario whose oracle fails is the replayed
    counterexample."""
    d = scratch_copy()
    try:
        env = dict(os.environ, PYTHONPATH=d, PYTHONDONTWRITEBYTECODE="1")
        req = {"property": pid, "obligation": obligation, "function": function,
               "model": inst.get("model") or {}, "path": inst.get("path") or inst.get("trace") or []}
        if inst.get("scenario"):
            req["scenario"] = inst["scenario"]
        p = subprocess.run(["/venv/bin/python", os.path.join(HERE, "replay", "run.py")],
                           input=json.dumps(req), capture_output=True, text=True, env=env, cwd=d, timeout=300)
        try:
            out = json.loads(p.stdout.strip().splitlines()[-1])
        except Exception:
            out = {"replayed": False, "error": (p.stdout[-500:] + p.stderr[-1500:])}
        return out
    finally:
        shutil.rmtree(d, ignore_errors=True)
