"""Contracts: sidecar specifications keyed by qualified function name."""


class Contract:
    """
    name      'module.Class.method' (repo function) or an environment name ('env.gen.send').
    params    parameter names, in order (including self).  For repo functions they are
              read from the AST and this may be omitted.
    defaults  {param: spec expression} for optional parameters at call sites
    types     {name: static type} for parameters/locals (class names, 'list', 'tuple', 'set', 'dict', 'int')
    requires  list of spec expressions over the entry state
    modifies  list of heap field names the function may write, or '*' (callout: unknown code
              may run; the whole heap is havocked and the two-state invariant re-assumed)
    post      list of spec expressions on normal exit (old(...) = entry state, `result`)
    xpost     list of spec expressions on exceptional exit (`exc`); None = never raises
    invariants {loop ordinal: [spec expressions]}; ordinals count loops (incl. comprehensions)
              in source order within the function, starting at 1
    calls     {source text of call target: contract name} overrides call resolution
    trusted   True: assumed contract (environment/dependency), body not checked
    ghost     ghost updates performed by an environment contract are part of post
    """

    def __init__(self, name, params=None, defaults=None, types=None, requires=(), modifies=(),
                 post=(), xpost=None, invariants=None, calls=None, trusted=False, pure_fn=None,
                 note="", inv_entry=True, inv_exit=True, two_state=None, labels=None,
                 covers=True, returns_type=None, raw_post=None, raw_xpost=None, raw_requires=None,
                 ghost_locals=None, loop_modifies=None, kind="function", generator=False, pure_when=None, assumes=()):
        self.name = name
        self.params = params
        self.defaults = defaults or {}
        self.types = types or {}
        self.requires = _lst(requires)
        self.modifies = modifies if modifies == "*" else list(modifies)
        self.post = _lst(post)
        self.xpost = None if xpost is None else _lst(xpost)
        self.invariants = invariants or {}
        self.calls = calls or {}
        self.trusted = trusted
        self.pure_fn = pure_fn
        self.note = note
        self.inv_entry = inv_entry      # assume global object invariants on entry
        self.inv_exit = inv_exit        # prove them on exit (and at callouts)
        # prove the two-state invariant entry->exit (default: for every non-trusted function)
        self.two_state = two_state
        self.labels = labels or {}
        self.covers = covers
        self.returns_type = returns_type
        self.raw_post = raw_post        # python callable(specenv) -> [z3] (for things the DSL lacks)
        self.raw_xpost = raw_xpost
        self.raw_requires = raw_requires
        self.ghost_locals = ghost_locals or {}
        self.loop_modifies = loop_modifies or {}
        self.kind = kind
        self.assumes = _lst(assumes)    # assumed at entry of the body, NOT required from callers (listed as assumptions)
        self.pure_when = pure_when      # spec condition (entry state) under which the call changes nothing
        self.generator = generator      # body is an @asynq generator: `yield` is a call to Yield


def _lst(x):
    if x is None:
        return []
    if isinstance(x, str):
        return [x]
    return list(x)


class Registry:
    def __init__(self):
        self.contracts = {}
        self.macros = {}        # name -> (params, expr string)
        self.pyfuncs = {}       # name -> python callable(specev, *z3args) -> z3
        self.field_types = {}   # (class, field) -> static type
        self.elem_types = {}    # (class, field) -> element static type for list/set fields
        self.global_calls = {}  # call text -> contract name (all functions)
        self.global_values = {} # (module, name) or name -> python callable(engine) -> z3 V
        self.inv_hooks = []     # callables(engine, heap) -> [z3]   object invariants
        self.two_state_hooks = []  # callables(engine, old, new) -> [z3]
        self.fresh_hooks = []   # callables(engine, state, obj, clsname): defaults of a fresh object
        self.array_hooks = []   # callables(engine, field, array const) -> [z3]: facts about one field array
        self.wf_hooks = []      # callables(engine, heap) -> [z3]   assumed well-formedness
        self.extra_classes = {} # class name -> bases
        self.presence_fields = set()
        self.disjoint_classes = []  # pairs of class names with no common subclass

    def add(self, c):
        if c.name in self.contracts:
            raise ValueError("duplicate contract " + c.name)
        self.contracts[c.name] = c
        return c

    def macro(self, name, params, expr):
        self.macros[name] = (list(params), expr)

    def pyfunc(self, name):
        def deco(f):
            self.pyfuncs[name] = f
            return f
        return deco
