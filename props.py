"""Which obligations constitute each property (C01..C20), property-level
lemmas, structural obligations, bounded stand-ins and replay dispatch."""
import json
import os
import shutil
import subprocess
import tempfile

HERE = os.path.dirname(os.path.abspath(__file__))
REPO = os.environ.get("ASYNQ_VERIF_REPO", "/repo")

COMMON_ASSUMPTIONS = [
    "pyvc (AST->VC generator, symbolic executor, theory encoding) is trusted; mitigated by deliberate-mutation runs and two back ends",
    "Python integers are mathematical; only .pxd C-typed fields get range obligations (C20)",
    "`is` is reference equality; attribute access follows the class bodies in the AST (no monkey-patching, no metaclasses)",
    "generator / exception / try-finally / with protocols as in the language reference; dict preserves insertion order; set iteration order adversarial",
    "Cython compiles the same statements with the same meaning apart from .pxd C types and cdef static dispatch",
    "E1: unknown code (task bodies, subscribers, user batch hooks, providers, contexts) touches asynq objects only through public methods, never reset_unsafe",
    "E2: every object invariant and the two-state invariants T1-T6 hold across unknown code because every public method under contract proves them (inv/two-state obligations)",
    "E5: unknown code does not ask a batch item for its value while that item's batch is completing its items",
    "subscribers raise only Exception (BaseException from an on_computed callback is documented by the code as leaving the scheduler in a bad state)",
    "fresh objects: the unreadable fields of a not-yet-initialised object are modelled with pending defaults (_value=_none, _error=None, batch=None)",
    "assert statements are executed (python -O removes them)",
]

F = "futures."
B = "batching."

PROPERTIES = {
    "C10": {
        "functions": [F + n for n in [
            "FutureBase.__init__", "FutureBase.is_computed", "FutureBase.value", "FutureBase.__call__",
            "FutureBase.error", "FutureBase.set_value", "FutureBase.set_error", "FutureBase.reset_unsafe",
            "FutureBase._computed", "FutureBase._compute", "FutureBase.raise_if_error",
            "Future.__init__", "Future._compute", "ConstFuture.__init__", "ErrorFuture.__init__"]],
        "assumptions": ["qcore.events.EventHook.safe_trigger calls every handler once then re-raises the first error (contract written from its shipped source)",
                        "qcore.errors.reraise raises its argument"],
        "not_proved": ["induction over the operation history is the standard meta-theorem (object invariant + per-operation contract), not machine-checked"],
    },
    "C11": {
        "functions": [B + n for n in [
            "BatchBase.__init__", "BatchBase.is_flushed", "BatchBase.is_cancelled", "BatchBase.is_empty",
            "BatchBase.get_priority", "BatchBase.flush", "BatchBase.cancel", "BatchBase._compute",
            "BatchBase._computed", "BatchItemBase.__init__", "BatchItemBase._compute"]] + [
            F + "FutureBase.set_value", F + "FutureBase.set_error", F + "FutureBase.error", F + "FutureBase.value"],
        "assumptions": ["user _flush/_cancel/_try_switch_active_batch obey the environment contracts in contracts/batching_c.py (E1-E3); _cancel and _try_switch_active_batch do not raise (documented requirement)"],
    },
}


# ---------------------------------------------------------------------------
def run_lemma(lem, eng, timeout):
    import lemmas
    return lemmas.run(lem, eng, timeout)


def run_structural(name, repo, reg, eng):
    import structural
    return structural.run(name, repo, reg, eng)


def run_bounded(sb, pid, tier, seed):
    import bounded
    return bounded.run(sb, pid, tier, seed)


# ---------------------------------------------------------------------------
# replay on the real code: a scratch pure-Python copy of the working tree, /venv/bin/python
def scratch_copy():
    d = tempfile.mkdtemp(prefix="asynq_replay_")
    os.makedirs(os.path.join(d, "asynq"))
    src = os.path.join(REPO, "asynq")
    for f in os.listdir(src):
        if f.endswith((".py", ".pyi")) or f == "py.typed":
            shutil.copy(os.path.join(src, f), os.path.join(d, "asynq", f))
    return d


def replay(pid, obligation, function, inst):
    """Run the replay scenarios registered for the failing function against
    the real code; the first scenario whose oracle fails is the replayed
    counterexample."""
    d = scratch_copy()
    try:
        env = dict(os.environ, PYTHONPATH=d, PYTHONDONTWRITEBYTECODE="1")
        req = {"property": pid, "obligation": obligation, "function": function,
               "model": inst.get("model") or {}, "path": inst.get("path") or inst.get("trace") or []}
        p = subprocess.run(["/venv/bin/python", os.path.join(HERE, "replay", "run.py")],
                           input=json.dumps(req), capture_output=True, text=True, env=env, cwd=d, timeout=300)
        try:
            out = json.loads(p.stdout.strip().splitlines()[-1])
        except Exception:
            out = {"replayed": False, "error": (p.stdout[-500:] + p.stderr[-1500:])}
        return out
    finally:
        shutil.rmtree(d, ignore_errors=True)
