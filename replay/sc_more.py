"""Further scenarios (histories and inputs the earlier batteries did not reach): flush bodies that finish their own batch,
very deep failing chains, tasks computed on another thread than the one that created them, forced double pauses, nested
runaway recursion, awaited empty containers in async generators, tuple-valued finished tasks in diagnostics, replacements that
refuse attributes with TypeError."""
import contextlib
import io
import sys
import threading

from scenarios import scenario, fail, _mk_batch


def _reset():
    from asynq import scheduler, batching, profiler
    scheduler.reset()
    batching._debug_batch_state.batches.clear() if hasattr(batching, "_debug_batch_state") else None
    profiler.reset()


@scenario(["batching.BatchBase._compute", "batching.BatchBase.flush", "batching.BatchBase.cancel", "batching.BatchBase._computed",
           "scheduler.TaskScheduler._flush_batch", "scheduler.TaskScheduler._continue_with_batch"], ["C05", "C10", "C11"])
def batch_finishes_itself_during_flush(req):
    """The flush body completes its own batch (cancel(error) / set_value) and then returns normally or raises: the batch keeps that first outcome, every item is completed with it, nothing (in particular no FutureIsAlreadyComputed) escapes flush(), item.value()/error() or the scheduler, waiting tasks receive the item errors, and later batches still run."""
    import asynq
    from asynq import asynq as A, batching, futures, scheduler

    class Rejected(Exception):
        pass

    class Later(Exception):
        pass
    why = Rejected("backend rejected the request")

    def cancel_then_return(b):
        b.items[0].set_value("first")
        b.cancel(why)

    def cancel_then_raise(b):
        b.items[0].set_value("first")
        b.cancel(why)
        raise Later("raised after cancelling")

    def complete_then_return(b):
        for i, it in enumerate(b.items):
            it.set_value(i)
        b.set_value(None)

    def complete_then_raise(b):
        for i, it in enumerate(b.items):
            it.set_value(i)
        b.set_value(None)
        raise Later("raised after completing")
    bodies = [("cancel then return", cancel_then_return, True), ("cancel then raise", cancel_then_raise, True),
              ("complete then return", complete_then_return, False), ("complete then raise", complete_then_raise, False)]
    for name, body, cancelled in bodies:
        for trigger in ("flush", "item.value", "item.error", "batch.value", "scheduler"):
            B, I = _mk_batch(asynq, body)
            b = B()
            items = [I(b) for _ in range(3)]
            notified = []
            b.on_computed.subscribe(lambda _b: notified.append([it.is_computed() for it in items]))
            got = None
            buf = io.StringIO()
            with contextlib.redirect_stdout(buf), contextlib.redirect_stderr(buf):
                try:
                    if trigger == "flush":
                        b.flush()
                    elif trigger == "item.value":
                        got = ("ret", items[0].value())
                    elif trigger == "item.error":
                        got = ("ret", items[1].error())
                    elif trigger == "batch.value":
                        b.value()
                    else:
                        _reset()

                        @A()
                        def waiter(k):
                            try:
                                v = yield items[k]
                                return ("val", v)
                            except Exception as e:
                                return ("exc", e)

                        @A()
                        def main():
                            r = yield [waiter.asynq(0), waiter.asynq(1), waiter.asynq(2)]
                            nxt = yield batching.DebugBatchItem("after", 7)
                            return r, nxt
                        got = ("ret", main())
                except futures.FutureIsAlreadyComputed as e:
                    return fail("FutureIsAlreadyComputed escaped although the flush body had only finished its own batch", body=name,
                                trigger=trigger)
                except BaseException as e:
                    if not (trigger == "batch.value" and cancelled and e is why):
                        return fail("an exception escaped from a flush whose body finished its own batch", body=name, trigger=trigger,
                                    error=repr(e)[:160])
            if b.flushes != 1 or not b.is_flushed() or not all(it.is_computed() for it in items):
                return fail("batch / items not completed exactly once", body=name, trigger=trigger, flushes=b.flushes)
            if cancelled:
                if b._error is not why or items[0]._value != "first" or items[1]._error is not why or items[2]._error is not why:
                    return fail("the outcome the flush body gave its batch (and through it the unset items) was not kept", body=name,
                                trigger=trigger, batch_error=repr(b._error)[:80], item1=repr(items[1]._error)[:80])
            else:
                if b._error is not None or [it._value for it in items] != [0, 1, 2]:
                    return fail("the outcome the flush body gave its batch and items was not kept", body=name, trigger=trigger,
                                batch_error=repr(b._error)[:80])
            if notified != [[True, True, True]]:
                return fail("batch subscribers not notified exactly once after all items", body=name, trigger=trigger, notified=repr(notified))
            if trigger == "scheduler":
                r, nxt = got[1]
                want0 = ("val", "first") if cancelled else ("val", 0)
                if r[0] != want0 or nxt != 7:
                    return fail("waiting tasks did not receive what the flush set / a later batch did not run", body=name, got=repr(got)[:200])
                if cancelled and not (r[1][0] == "exc" and r[1][1] is why and r[2][1] is why):
                    return fail("waiting tasks did not receive the cancellation error of their items", body=name, got=repr(r)[:200])
                s = scheduler.get_scheduler()
                if len(s._tasks) or len(s._batches):
                    return fail("scheduler not clean afterwards", body=name)
    return None


@scenario(["async_task.AsyncTask._accept_error", "async_task.AsyncTask._continue", "scheduler.TaskScheduler._execute",
           "async_task.AsyncTask.traceback"], ["C03", "C02", "C08"])
def deep_chain_failure(req):
    """A chain of awaiting tasks far deeper than the interpreter's recursion limit whose innermost task fails (or succeeds): value() raises that very exception (returns the value), every task of the chain is computed, and the scheduler is clean."""
    from asynq import asynq as A, batching, scheduler
    depth = max(4000, sys.getrecursionlimit() * 3)

    class Boom(Exception):
        pass
    err = Boom("innermost failure")
    for fails in (True, False):
        for blocking in (False, True):
            made = []

            @A()
            def link(n):
                if n == 0:
                    if blocking:
                        yield batching.DebugBatchItem("deep", 1)
                    if fails:
                        raise err
                    return 0
                t = link.asynq(n - 1)
                made.append(t)
                v = yield t
                return v + 1
            _reset()
            try:
                got = ("val", link(depth))
            except BaseException as e:
                got = ("exc", e)
            want = ("exc", err) if fails else ("val", depth)
            if got[0] != want[0] or (fails and got[1] is not err) or (not fails and got[1] != depth):
                return fail("a deep chain of awaiting tasks does not end with the innermost task's own outcome", depth=depth, fails=fails,
                            blocking=blocking, got=repr(got)[:200])
            if not all(t.is_computed() for t in made):
                return fail("value() ended while tasks of the chain are not computed", depth=depth, fails=fails,
                            uncomputed=sum(1 for t in made if not t.is_computed()))
            s = scheduler.get_scheduler()
            if len(s._tasks) or s.active_task is not None:
                return fail("scheduler not clean after a deep chain", depth=depth, fails=fails, tasks=len(s._tasks))
    return None


@scenario(["async_task.AsyncTask._compute", "async_task.AsyncTask.__init__", "scheduler.get_scheduler", "scheduler.get_active_task"],
          ["C16", "C08"])
def created_here_computed_there(req):
    """Tasks created on one thread and computed with value() on another: they run on the computing thread's scheduler, get_active_task() inside their code is the task, contexts they enter are tracked, the creating thread's scheduler is untouched and nothing leaks between threads."""
    from asynq import asynq as A, batching, scheduler, scoped_value
    sv = scoped_value.AsyncScopedValue("outer")
    seen = {}

    @A()
    def reads(tag):
        v = yield batching.DebugBatchItem("k", tag)
        return (tag, sv.get())

    @A()
    def worker_body(tag):
        me = scheduler.get_active_task()
        seen[tag] = {"active_is_task": me is not None, "sched": scheduler.get_scheduler()}
        with sv.override("inner-%s" % tag):
            a = yield batching.DebugBatchItem("k", tag)
            inside = sv.get()
            seen[tag]["active_after_yield"] = scheduler.get_active_task() is me
        other = yield reads.asynq(tag)
        return (a, inside, other)
    _reset()
    main_sched = scheduler.get_scheduler()
    tasks = {tag: worker_body.asynq(tag) for tag in ("a", "b")}
    results, errors = {}, {}

    def run(tag):
        try:
            results[tag] = (tasks[tag].value(), scheduler.get_scheduler())
        except BaseException as e:
            errors[tag] = e
    threads = [threading.Thread(target=run, args=(tag,)) for tag in tasks]
    for t in threads:
        t.start()
    for t in threads:
        t.join(30)
    if errors:
        return fail("computing a task on another thread than the one that created it failed", errors=repr(errors)[:300])
    for tag in tasks:
        (a, inside, other), wsched = results[tag]
        if wsched is main_sched or seen[tag]["sched"] is not wsched:
            return fail("a task computed on a worker thread ran on another thread's scheduler", tag=tag)
        if not seen[tag]["active_is_task"] or not seen[tag]["active_after_yield"]:
            return fail("get_active_task() inside a task computed on another thread is not that task", tag=tag, seen=repr(seen[tag])[:200])
        if a != tag or inside != "inner-%s" % tag or other != (tag, "outer"):
            return fail("a task computed on another thread than its creator: wrong values or an override leaked into a sibling task",
                        tag=tag, got=repr((a, inside, other)))
    if len(main_sched._tasks) or len(main_sched._batches) or main_sched.active_task is not None or sv.get() != "outer":
        return fail("the creating thread's scheduler / scoped value was disturbed by computations on other threads",
                    tasks=len(main_sched._tasks), value=sv.get())
    return None


@scenario(["scoped_value._AsyncScopedValueOverrideContext.pause", "scoped_value._AsyncPropertyOverrideContext.pause",
           "scoped_value._AsyncScopedValueOverrideContext.resume"], ["C07"])
def overrides_restored_after_forced_failure(req):
    """A task suspended inside scoped-value / attribute overrides is failed by the scheduler (a NonAsyncContext nested in the overrides, or a sibling context whose pause() raises): afterwards every overridden value is what it was before the computation."""
    from asynq import asynq as A, batching, contexts, scoped_value

    class Holder(object):
        attr = "attr-before"
    for how in ("nonasync", "pause-raises"):
        sv = scoped_value.AsyncScopedValue("before")
        h = Holder()
        h.attr = "attr-before"

        class BadPause(contexts.AsyncContext):
            def resume(self):
                pass

            def pause(self):
                raise RuntimeError("pause fails")

        @A()
        def inner():
            with sv.override("over-1"):
                with scoped_value.async_override(h, "attr", "attr-over"):
                    with sv.override("over-2"):
                        if how == "nonasync":
                            with contexts.NonAsyncContext():
                                yield batching.DebugBatchItem("k", 1)
                        else:
                            with BadPause():
                                yield batching.DebugBatchItem("k", 1)
            return "finished"

        @A()
        def outer():
            try:
                r = yield inner.asynq()
            except Exception as e:
                r = type(e).__name__
            v = yield batching.DebugBatchItem("k", 2)
            return r, sv.get(), h.attr
        _reset()
        buf = io.StringIO()
        with contextlib.redirect_stdout(buf), contextlib.redirect_stderr(buf):
            try:
                got = outer()
            except Exception as e:
                got = ("escaped", type(e).__name__)
        if sv.get() != "before" or h.attr != "attr-before":
            return fail("an overridden value is not restored after a computation in which the overriding task was failed while suspended",
                        how=how, scoped_value=repr(sv.get()), attribute=repr(h.attr), outcome=repr(got)[:160])
        if isinstance(got, tuple) and len(got) == 3 and (got[1] != "before" or got[2] != "attr-before"):
            return fail("a task outside the overrides reads an overridden value", how=how, outcome=repr(got))
    return None


@scenario(["scheduler.TaskScheduler._continue_with_task", "scheduler.TaskScheduler._execute", "scheduler.TaskScheduler.reset"],
          ["C08", "C01"])
def nested_runaway_guard(req):
    """The runaway-recursion RuntimeError raised inside a synchronous call nested two or more levels deep in task code and caught there: after the nested call returns, get_active_task() in every enclosing task is that task again, contexts entered afterwards are tracked, and the outer computation completes with the right value."""
    from asynq import asynq as A, batching, scheduler, debug, contexts
    events = []

    class C(contexts.AsyncContext):
        def resume(self):
            events.append("r")

        def pause(self):
            events.append("p")

    @A()
    def runaway(n):
        if n == 0:
            return 0
        v = yield runaway.asynq(n - 1)
        return v + 1

    @A()
    def level2():
        me = scheduler.get_active_task()
        try:
            runaway(10000)
            hit = False
        except RuntimeError:
            hit = True
        ok = scheduler.get_active_task() is me
        return hit, ok

    @A()
    def level1():
        me = scheduler.get_active_task()
        hit, ok2 = level2()
        ok1 = scheduler.get_active_task() is me
        n = len(events)
        with C():
            v = yield batching.DebugBatchItem("k", 5)
        tracked = events[n:] == ["r", "p", "r", "p"]
        return hit, ok2, ok1, tracked, v

    @A()
    def top():
        me = scheduler.get_active_task()
        r = level1()
        return r + (scheduler.get_active_task() is me,)
    old = debug.options.MAX_TASK_STACK_SIZE
    debug.options.MAX_TASK_STACK_SIZE = 200
    try:
        _reset()
        buf = io.StringIO()
        with contextlib.redirect_stdout(buf), contextlib.redirect_stderr(buf):
            try:
                got = top()
            except Exception as e:
                return fail("the runaway guard tripped in a nested synchronous call and caught there failed the enclosing computation",
                            error=repr(e)[:200])
    finally:
        debug.options.MAX_TASK_STACK_SIZE = old
    hit, ok2, ok1, tracked, v, ok0 = got
    if not hit:
        return None     # the guard did not trip: nothing to check on this build
    # (the task that itself catches the RuntimeError sees no active task until its step ends: the guard resets the scheduler by design;
    #  the statement is about code running after a nested call *returned*, which is the case for the enclosing tasks)
    if not (ok1 and ok0):
        return fail("after a nested synchronous call returned (an inner call had ended with the runaway-recursion RuntimeError and was caught "
                    "there), get_active_task() in an enclosing task is no longer that task", middle=ok1, outer=ok0)
    if not tracked or v != 5:
        return fail("a context entered after the nested runaway failure is not paused/resumed around the task's suspension", events=list(events), v=v)
    s = scheduler.get_scheduler()
    if len(s._tasks) or s.active_task is not None:
        return fail("scheduler not clean after the computation")
    return None


@scenario(["generator._AsyncGenerator.send", "generator._AsyncGenerator._send_inner", "generator._AsyncGenerator._get_one_value"], ["C17"])
def generator_awaits_empty_containers(req):
    """Inside an async generator, awaiting an empty list / tuple / dict (or None) as the first await of a step, between Values and after other awaits: the body receives exactly that empty container (None), and the Values delivered are unchanged."""
    from asynq import asynq as A, batching
    from asynq.generator import async_generator, list_of_generator, Value

    @A()
    def get(x):
        v = yield batching.DebugBatchItem("k", x)
        return v
    empties = [[], (), {}, None]
    for pos in ("first", "after-await", "between-values"):
        for e in empties:
            got = []

            @async_generator()
            def gen():
                if pos == "first":
                    r = yield e
                    got.append(r)
                    yield Value(1)
                elif pos == "after-await":
                    a = yield get.asynq(3)
                    r = yield e
                    got.append(r)
                    yield Value(a)
                else:
                    yield Value(1)
                    r = yield e
                    got.append(r)
                    rows = yield [get.asynq(i) for i in ()]
                    got.append(rows)
                    yield Value(2)

            @A()
            def main():
                vals = yield list_of_generator.asynq(gen())
                return vals
            _reset()
            try:
                vals = main()
            except Exception as ex:
                return fail("awaiting an empty container inside an async generator failed", position=pos, awaited=repr(e), error=repr(ex)[:160])
            want_vals = {"first": [1], "after-await": [3], "between-values": [1, 2]}[pos]
            if vals != want_vals:
                return fail("the Values delivered by an async generator that awaits an empty container changed", position=pos,
                            awaited=repr(e), got=repr(vals), expected=repr(want_vals))
            if not got or got[0] != e or type(got[0]) is not type(e) or (pos == "between-values" and got[1] != []):
                return fail("an async generator body awaiting an empty container did not receive that container", position=pos,
                            awaited=repr(e), received=repr(got))
    return None


@scenario(["async_task.AsyncTask.__str__", "futures.FutureBase.__repr__", "debug.format_asynq_stack", "generator.Value.__repr__"], ["C18"])
def diagnostics_of_container_valued_objects(req):
    """str / repr / dump of finished tasks and futures whose value is a tuple (empty, 1-tuple, pair), list, dict, a %-format string or bytes, and whose error carries such arguments: never raise, and name the whole value."""
    from asynq import asynq as A, futures, batching, debug
    values = [(), (1,), (1, 2), ("%s", "%d"), [1, 2], {"a": 1}, "100%", "%s %s", b"x", None, 0]
    buf = io.StringIO()
    for v in values:
        @A()
        def t():
            yield None
            return v

        @A()
        def failing():
            yield None
            raise KeyError(v)
        task = t.asynq()
        task.value()
        ft = failing.asynq()
        try:
            ft.value()
        except KeyError:
            pass
        objs = [task, ft, futures.ConstFuture(v), futures.ErrorFuture(KeyError(v))]
        f = futures.Future(lambda: v)
        f.value()
        objs.append(f)
        from asynq.generator import Value
        try:
            s_ = repr(Value(v))
        except Exception as e:
            return fail("repr() of an async generator Value raised", value=repr(v), error=repr(e)[:160])
        if repr(v) not in s_:
            return fail("repr() of an async generator Value does not show its whole value", value=repr(v), text=s_[:120])
        for o in objs:
            for op in ("str", "repr", "dump", "debug.str"):
                old_out = debug.stdout
                debug.stdout = buf
                try:
                    with contextlib.redirect_stdout(buf), contextlib.redirect_stderr(buf):
                        if op == "str":
                            s = str(o)
                        elif op == "repr":
                            s = repr(o)
                        elif op == "dump":
                            o.dump()
                            s = None
                        else:
                            s = debug.str(o)
                except Exception as e:
                    return fail("a diagnostic of a finished future/task raised", op=op, kind=type(o).__name__, value=repr(v), error=repr(e)[:160])
                finally:
                    debug.stdout = old_out
                if s is not None and op in ("str", "repr") and o._error is None and repr(v) not in s:
                    return fail("the text of a finished future/task does not show its whole value", op=op, kind=type(o).__name__,
                                value=repr(v), text=s[:200])
    return None


@scenario(["mock_._maybe_wrap_new", "mock_._PatchAsync.__enter__", "mock_.patch"], ["C19"])
def mock_replacements_that_refuse_attributes(req):
    """Replacements that cannot take attributes - builtin types (dict, list, int), builtin functions (len), objects whose __setattr__ raises TypeError or AttributeError, objects with __slots__: patch()/patch.object() install them, every calling convention reaches them with the given arguments, and the original is restored."""
    import types
    import asyncio
    from asynq import asynq as A, mock as amock
    mod = types.ModuleType("verif_mock_target2")
    sys.modules["verif_mock_target2"] = mod

    @A()
    def target(*a, **k):
        return ("orig", a)
    mod.target = target

    class FrozenT(object):
        def __call__(self, *a, **k):
            return ("frozenT", a)

        def __setattr__(self, n, v):
            raise TypeError("immutable")

    class FrozenA(object):
        def __call__(self, *a, **k):
            return ("frozenA", a)

        def __setattr__(self, n, v):
            raise AttributeError("immutable")

    class Slotted(object):
        __slots__ = ()

        def __call__(self, *a, **k):
            return ("slotted", a)
    repls = [("dict", dict, ([("a", 1)],), {"a": 1}), ("list", list, ((1, 2),), [1, 2]), ("int", int, ("7",), 7),
             ("len", len, ([1, 2, 3],), 3), ("TypeError on setattr", FrozenT(), (1,), ("frozenT", (1,))),
             ("AttributeError on setattr", FrozenA(), (1,), ("frozenA", (1,))), ("__slots__", Slotted(), (1,), ("slotted", (1,)))]
    try:
        orig = mod.__dict__["target"]
        for name, new, args, want in repls:
            for style in ("with", "object"):
                try:
                    cm = amock.patch("verif_mock_target2.target", new) if style == "with" else amock.patch.object(mod, "target", new)
                    with cm:
                        fn = mod.target

                        @A()
                        def yielder():
                            r = yield fn.asynq(*args)
                            return r
                        res = {"sync": fn(*args), "value": fn.asynq(*args).value(), "yield": yielder(),
                               "asyncio": asyncio.run(fn.asyncio(*args))}
                except Exception as e:
                    return fail("patching with a replacement that cannot take attributes failed", replacement=name, style=style, error=repr(e)[:200])
                if any(v != want for v in res.values()):
                    return fail("calling conventions disagree under patch", replacement=name, style=style, results=repr(res)[:300])
                if mod.__dict__["target"] is not orig:
                    return fail("original not restored", replacement=name, style=style)
    finally:
        sys.modules.pop("verif_mock_target2", None)
    return None
