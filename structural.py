"""Structural (AST-level) obligations."""


def run(name, repo, reg, eng):
    raise NotImplementedError(name)
