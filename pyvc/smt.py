"""SMT vocabulary of the pyvc encoding (z3 Python API).

One algebraic sort V holds every Python value:
    obj(oid)   identity-bearing values: heap objects, classes, functions, markers, opaque strings
    ival(i)    ints            bval(b)   bools            none   None
Mutable state lives in the heap (arrays indexed by V); immutable structure
(type of an object, tuple length/items) is given by uninterpreted functions.
Ints/bools/None are datatype constructors so that boxing needs no axioms and
the solver can build finite counter-models (an injective box: Int -> V over an
uninterpreted sort forced infinite models and made every refutation `unknown`).

The encoding stays inside UF + datatypes + arrays + linear integer arithmetic +
quantifiers with explicit patterns.  No Seq, no strings.
"""
import z3

_V = z3.Datatype("V")
_V.declare("obj", ("oid", z3.IntSort()))
_V.declare("ival", ("iv", z3.IntSort()))
_V.declare("bval", ("bv", z3.BoolSort()))
_V.declare("none")
V = _V.create()
Int = z3.IntSort()
Bool = z3.BoolSort()

# ---- immutable structure -------------------------------------------------
typeof_u = z3.Function("typeof", V, V)          # type(x) for objects
subclass = z3.Function("subclass", V, V, Bool)  # issubclass(c, k)
int_u = z3.Function("int_u", V, Int)            # integer payload of an int-subclass object (opaque)
tlen = z3.Function("tlen", V, Int)              # tuple length
titem = z3.Function("titem", V, Int, V)         # tuple item
truthy_u = z3.Function("truthy_u", V, Bool)     # truthiness of opaque values
id_of = z3.Function("id_of", V, Int)            # id(x)

_consts = {}
_ids = {}


def const(name):
    """A named distinguished value (classes, markers, module globals, opaque
    string literals): obj(-k) with a fixed negative id, hence pairwise distinct
    without any axiom and distinct from every fresh object (positive ids)."""
    if name not in _consts:
        _ids[name] = -(len(_ids) + 1)
        _consts[name] = V.obj(z3.IntVal(_ids[name]))
    return _consts[name]


NONE = V.none
TRUE = V.bval(z3.BoolVal(True))
FALSE = V.bval(z3.BoolVal(False))
NONE_MARK = const("_none")          # futures._none marker object
NOTIMPL = const("NotImplemented")


def box(i):
    return V.ival(i)


def is_boxed(v):
    return z3.is_app(v) and v.decl().eq(V.ival)


def is_bval_app(v):
    return z3.is_app(v) and v.decl().eq(V.bval)


def int_of(v):
    if is_boxed(v):
        return v.arg(0)
    if is_bval_app(v):
        return z3.If(v.arg(0), z3.IntVal(1), z3.IntVal(0))
    return z3.If(V.is_ival(v), V.iv(v), z3.If(V.is_bval(v), z3.If(V.bv(v), z3.IntVal(1), z3.IntVal(0)), int_u(v)))


_ct_ref = []


def typeof(v):
    ct = _ct_ref[0]
    if is_boxed(v):
        return ct.cls("int")
    if is_bval_app(v):
        return ct.cls("bool")
    if z3.is_app(v) and v.decl().eq(V.none):
        return ct.cls("NoneType")
    if z3.is_app(v) and v.decl().eq(V.obj) and z3.is_int_value(v.arg(0)):
        return typeof_u(v)
    return z3.If(V.is_ival(v), ct.cls("int"),
           z3.If(V.is_bval(v), ct.cls("bool"),
           z3.If(V.is_none(v), ct.cls("NoneType"), typeof_u(v))))


def ident(v):
    return V.ival(id_of(v))


# builtin classes
BUILTIN_CLASSES = {
    # name: bases
    "object": [],
    "type": ["object"],
    "NoneType": ["object"],
    "int": ["object"],
    "bool": ["int"],
    "str": ["object"],
    "bytes": ["object"],
    "float": ["object"],
    "tuple": ["object"],
    "list": ["object"],
    "dict": ["object"],
    "OrderedDict": ["dict"],
    "set": ["object"],
    "function": ["object"],
    "staticmethod": ["object"],
    "classmethod": ["object"],
    "generator": ["object"],
    "MarkerObject": ["object"],
    "BaseException": ["object"],
    "Exception": ["BaseException"],
    "GeneratorExit": ["BaseException"],
    "KeyboardInterrupt": ["BaseException"],
    "SystemExit": ["BaseException"],
    "StopIteration": ["Exception"],
    "ArithmeticError": ["Exception"],
    "ZeroDivisionError": ["ArithmeticError"],
    "AssertionError": ["Exception"],
    "AttributeError": ["Exception"],
    "LookupError": ["Exception"],
    "KeyError": ["LookupError"],
    "IndexError": ["LookupError"],
    "NotImplementedError": ["RuntimeError"],
    "RuntimeError": ["Exception"],
    "TypeError": ["Exception"],
    "ValueError": ["Exception"],
    "OverflowError": ["ArithmeticError"],
}


class ClassTable:
    """Finite table of the classes the VCs know by name, with the subclass
    relation read from the `class` statements of the repo (plus builtins).
    Unknown (user) classes are any other V value; the relation on them is
    constrained only by the closure axioms below."""

    def __init__(self):
        _ct_ref[:] = [self]
        self.used = set()
        self.bases = {}
        for k, b in BUILTIN_CLASSES.items():
            self.bases[k] = list(b)

    def add(self, name, bases):
        self.bases[name] = [b for b in bases]

    def known(self, name):
        return name in self.bases

    def ancestors(self, name):
        out, todo = [], [name]
        while todo:
            n = todo.pop()
            if n in out:
                continue
            out.append(n)
            todo.extend(self.bases.get(n, []))
        return out

    def is_sub(self, a, b):
        return b in self.ancestors(a)

    def cls(self, name):
        if name not in self.bases:
            raise KeyError("unknown class %s" % name)
        self.used.add(name)
        return const("cls:" + name)

    def axioms(self, used=None):
        """Ground + single-variable axioms for the known classes.
        `used`: restrict to classes reachable from these names (keeps VCs small)."""
        keep = set()
        for u in list(self.used) + ["int", "bool", "NoneType", "MarkerObject", "tuple", "list", "dict", "BaseException"]:
            keep.update(self.ancestors(u))
        names = sorted(keep)
        ax = []
        cs = [self.cls(n) for n in names]
        c = z3.Const("c!ax", V)
        for n in names:
            k = self.cls(n)
            # ground facts among known classes
            for m in names:
                km = self.cls(m)
                ax.append(subclass(k, km) if self.is_sub(n, m) else z3.Not(subclass(k, km)))
            # upward closure for arbitrary classes
            for b in self.bases[n]:
                if b in names:
                    ax.append(z3.ForAll([c], z3.Implies(subclass(c, k), subclass(c, self.cls(b))),
                                        patterns=[subclass(c, k)]))
            # the type of a class object is `type`: not needed
        return ax, cs


def distinct_consts(extra=()):
    return z3.BoolVal(True)      # named constants are distinct by construction


def base_axioms(ct):
    """Axioms about the immutable structure (ints/bools/None need none)."""
    x = z3.Const("x!ax", V)
    ax = [
        typeof_u(NONE_MARK) == ct.cls("MarkerObject"),
        z3.ForAll([x], tlen(x) >= 0, patterns=[tlen(x)]),
        # exact int / bool / NoneType objects are the ival / bval / none values, never heap objects
        z3.ForAll([x], z3.And(typeof_u(x) != ct.cls("int"), typeof_u(x) != ct.cls("bool"), typeof_u(x) != ct.cls("NoneType")),
                  patterns=[typeof_u(x)]),
    ]
    return ax


def b2v(b):
    """z3 Bool -> V (Python bool object)."""
    if isinstance(b, bool):
        b = z3.BoolVal(b)
    return V.bval(b)


def mk_int(n):
    return V.ival(z3.IntVal(n))


def forall(vs, body, patterns=None):
    """ForAll with explicit patterns when z3 accepts them (a pattern over an array
    term containing ite is rejected), else let z3 infer."""
    if patterns:
        try:
            return z3.ForAll(vs, body, patterns=patterns)
        except z3.Z3Exception:
            pass
    return z3.ForAll(vs, body)
