#!/usr/bin/env python3-vt
"""Regenerate baseline/obligations.json: the obligations discharged on the
pinned tree.  Run deliberately (never at check time)."""
import json, os, sys
sys.path.insert(0, os.path.dirname(os.path.dirname(os.path.abspath(__file__))))
from pyvc import verify
import props
quals = sorted({q for P in props.PROPERTIES.values() for q in P["functions"]})
res = verify.verify_many(quals, timeout=20)
names, bad = set(), []
for r in res:
    if r["undecided"]:
        bad.append((r["function"], r["undecided"]))
    for o in r["obligations"]:
        names.add(o["name"])
    for o in r["obligations"]:
        if o["status"] != "discharged":
            bad.append((o["name"], o["status"]))
repo, reg, eng = verify.setup()
import lemmas, structural
for P in props.PROPERTIES.values():
    for l in P.get("lemmas", []):
        o = lemmas.run(l, eng, 20)
        names.add(o["name"])
        if o["status"] != "discharged":
            bad.append((o["name"], o["status"]))
    for sname in P.get("structural", []):
        o = structural.run(sname, repo, reg, eng)
        names.add(o["name"])
        if o["status"] != "discharged":
            bad.append((o["name"], o["status"]))
failing = {b[0] for b in bad}
out = {"obligations": sorted(n for n in names if n not in failing), "not_discharged_at_baseline": sorted(failing)}
os.makedirs("baseline", exist_ok=True)
json.dump(out, open("baseline/obligations.json", "w"), indent=0)
print(len(out["obligations"]), "obligations in baseline;", len(failing), "not discharged:")
for b in bad:
    print("  ", b)
