"""Structural (AST-level) obligations: facts about the shape of the real source that a property rests on
and that are decided by inspecting the AST re-read from the working tree (no solver needed)."""
import ast

# ---------------------------------------------------------------------------
# C16: ownership classes of every module-level / class-level mutable binding of asynq/*.py
OWNERSHIP = {
    # thread-local roots
    ("scheduler", "_state"): "thread-local root (LocalTaskSchedulerState)",
    ("batching", "_debug_batch_state"): "thread-local root (LocalDebugBatchState)",
    ("profiler", "_state"): "thread-local root (LocalProfileState)",
    # context-local
    ("asynq_to_async", "_asyncio_mode"): "context-local (ContextVar)",
    # keyed by thread
    ("tools", "DeduplicateDecorator.tasks"): "process-wide dict, every key contains threading.current_thread()",
    # process-wide configuration (read-only in scheduling code)
    ("_debug", "options"): "process-wide configuration object",
    ("debug", "options"): "alias of _debug.options",
    ("debug", "original_hook"): "process-wide configuration (exception hook)",
    ("debug", "is_attached"): "process-wide configuration (exception hook)",
    ("debug", "_use_original_exc_handler"): "process-wide configuration",
    ("debug", "_should_filter_traceback"): "process-wide configuration",
    ("debug", "_use_syntax_highlighting"): "process-wide configuration",
    ("debug", "_std_str"): "immutable alias", ("debug", "_std_repr"): "immutable alias",
    # immutable after import
    ("futures", "_debug_options"): "alias of _debug.options", ("futures", "_none"): "immutable marker",
    ("futures", "none_future"): "immutable constant future",
    ("batching", "_debug_options"): "alias of _debug.options",
    ("scheduler", "_debug_options"): "alias of _debug.options", ("scheduler", "_futures_none"): "immutable marker",
    ("async_task", "_debug_options"): "alias of _debug.options", ("async_task", "_futures_none"): "immutable marker",
    ("async_task", "_none_future"): "immutable constant future", ("async_task", "MAX_DUMP_INDENT"): "constant",
    ("async_task", "_empty_tuple"): "immutable", ("async_task", "_empty_dictionary"): "never written (shared empty dict)",
    ("utils", "_debug_options"): "alias of _debug.options",
    ("decorators", "logger"): "logging.Logger (thread-safe by the logging module)",
    ("generator", "END_OF_GENERATOR"): "immutable marker",
    ("generator", "_AsyncGenerator.__next__"): "method alias (next)",
    ("scoped_value", "_empty_context"): "immutable", ("scoped_value", "async_override"): "class alias",
    ("mock_", "_patch"): "alias of unittest.mock._patch", ("mock_", "_get_target"): "alias",
    ("asynq_to_async", "AsyncioMode._token"): "class-level default None; instances set their own",
    ("decorators", "PureAsyncDecoratorBinder"): "class",
    ("tools", "DeduplicateDecorator.binder_cls"): "class attribute: binder class (immutable)",
    ("decorators", "PureAsyncDecorator.binder_cls"): "class attribute: binder class (immutable)",
    ("decorators", "AsyncDecorator.binder_cls"): "class attribute: binder class (immutable)",
    ("decorators", "AsyncAndSyncPairDecorator.binder_cls"): "class attribute: binder class (immutable)",
    ("decorators", "AsyncWrapper.binder_cls"): "class attribute: binder class (immutable)",
}
THREAD_LOCAL_ROOTS = {"scheduler": ("LocalTaskSchedulerState", ["current", "last_id"]),
                      "batching": ("LocalDebugBatchState", ["batches"]),
                      "profiler": ("LocalProfileState", ["stats", "counter"])}
SKIP_NAMES = {"__traceback_hide__", "__all__", "__version__"}


def _rec(name, ok, reason=""):
    return {"name": "structural#" + name, "kind": "structural", "label": name, "status": "discharged" if ok else "failed",
            "backend": "ast", "seconds": 0.0, "reason": reason, "lineno": None, "trace": [reason] if reason else [],
            "model": {}, "model_text": ""}


def _module_bindings(mod):
    out = []
    for node in mod.tree.body:
        targets = []
        if isinstance(node, ast.Assign):
            targets = node.targets
        elif isinstance(node, ast.AnnAssign):
            targets = [node.target]
        for t in targets:
            if isinstance(t, ast.Name) and t.id not in SKIP_NAMES:
                out.append((t.id, node))
    for cname, cnode in mod.classes.items():
        for node in cnode.body:
            targets = []
            if isinstance(node, ast.Assign):
                targets = node.targets
            elif isinstance(node, ast.AnnAssign):
                targets = [node.target]
            for t in targets:
                if isinstance(t, ast.Name) and t.id not in SKIP_NAMES:
                    out.append((cname + "." + t.id, node))
    return out


def ownership_inventory(repo, reg, eng):
    """Every module-level and class-level binding of asynq/*.py is classified; a new or unclassified binding
    (e.g. thread-local state turned into module state) fails."""
    missing = []
    for mname, mod in repo.modules.items():
        for name, node in _module_bindings(mod):
            if (mname, name) in OWNERSHIP:
                continue
            v = getattr(node, "value", None)
            # immutable literals / class or function aliases need no entry
            if isinstance(v, ast.Constant) or v is None:
                continue
            if isinstance(v, (ast.Name, ast.Attribute)) and not isinstance(v, ast.Call):
                # alias of a module attribute: must be an entry unless it aliases a class/function
                pass
            missing.append("%s.%s (line %d)" % (mname, name, node.lineno))
    # functions must not introduce new module state through `global` writes outside the known configuration module
    for mname, mod in repo.modules.items():
        for q, fn in mod.functions.items():
            for n in ast.walk(fn):
                if isinstance(n, ast.Global):
                    for g in n.names:
                        written = any(isinstance(x, ast.Name) and x.id == g and isinstance(x.ctx, ast.Store) for x in ast.walk(fn))
                        if written and (mname, g) not in OWNERSHIP:
                            missing.append("%s.%s written through `global` in %s" % (mname, g, q))
                        elif written and not OWNERSHIP[(mname, g)].startswith("process-wide configuration"):
                            missing.append("%s.%s (%s) is rebound in %s" % (mname, g, OWNERSHIP[(mname, g)], q))
    return _rec("ownership-inventory", not missing, "unclassified shared state: " + "; ".join(missing[:8]) if missing else "")


def thread_local_roots(repo, reg, eng):
    """The three per-thread state holders derive from threading.local and create fresh state in __init__; the
    module-level instance is created from that class."""
    bad = []
    for mname, (cls, fields) in THREAD_LOCAL_ROOTS.items():
        mod = repo.modules.get(mname)
        c = mod.classes.get(cls) if mod else None
        if c is None:
            bad.append("%s.%s missing" % (mname, cls))
            continue
        bases = [ast.unparse(b) for b in c.bases]
        if "threading.local" not in bases:
            bad.append("%s.%s does not derive from threading.local (%s)" % (mname, cls, bases))
        init = mod.functions.get(cls + ".__init__")
        assigned = set()
        fresh_ok = True
        todo = [init] if init is not None else []
        # state may be created by a method called from __init__ (LocalTaskSchedulerState.reset)
        for extra in ("reset",):
            if mod.functions.get(cls + "." + extra) is not None:
                todo.append(mod.functions[cls + "." + extra])
        for fn in todo:
            for n in ast.walk(fn):
                if isinstance(n, ast.Assign):
                    for t in n.targets:
                        if isinstance(t, ast.Attribute) and isinstance(t.value, ast.Name) and t.value.id == "self":
                            assigned.add(t.attr)
                            v = n.value
                            if not isinstance(v, (ast.List, ast.Dict, ast.Constant, ast.Call)):
                                fresh_ok = False
                            if isinstance(v, ast.Name):
                                fresh_ok = False
        for f in fields:
            if f not in assigned:
                bad.append("%s.%s does not create per-thread field %s in __init__" % (mname, cls, f))
        if not fresh_ok:
            bad.append("%s.%s.__init__ stores a shared (non-fresh) object" % (mname, cls))
        # module-level instance
        root = {"scheduler": "_state", "batching": "_debug_batch_state", "profiler": "_state"}[mname]
        inst = [n for name, n in _module_bindings(mod) if name == root]
        if not inst or not (isinstance(inst[0].value, ast.Call) and ast.unparse(inst[0].value.func) == cls):
            bad.append("%s.%s is not an instance of %s" % (mname, root, cls))
    # the asyncio-mode flag is a ContextVar
    m = repo.modules.get("asynq_to_async")
    am = [n for name, n in _module_bindings(m) if name == "_asyncio_mode"] if m else []
    if not am or not (isinstance(am[0].value, ast.Call) and ast.unparse(am[0].value.func) == "ContextVar"):
        bad.append("asynq_to_async._asyncio_mode is not a ContextVar")
    return _rec("thread-local-roots", not bad, "; ".join(bad[:6]))


def dedup_key_thread(repo, reg, eng):
    """DeduplicateDecorator.cache_key evaluates threading.current_thread() at call time as a component of the
    key, and every access to the shared `tasks` dict goes through a key produced by cache_key."""
    mod = repo.modules.get("tools")
    bad = []
    ck = mod.functions.get("DeduplicateDecorator.cache_key") if mod else None
    if ck is None:
        return _rec("dedup-key-thread", False, "cache_key missing")
    rets = [n for n in ast.walk(ck) if isinstance(n, ast.Return)]
    ok = False
    for r in rets:
        if isinstance(r.value, ast.Tuple):
            calls = [ast.unparse(e) for e in r.value.elts]
            if any(c.replace(" ", "") == "threading.current_thread()" for c in calls) and any("id(self.fn)" in c for c in calls) \
                    and any("self.keygetter(" in c for c in calls):
                ok = True
    if not ok:
        bad.append("cache_key does not return (keygetter(args, kwargs), threading.current_thread(), id(self.fn)) evaluated per call")
    for q in ("DeduplicateDecorator.asynq", "DeduplicateDecorator.dirty"):
        fn = mod.functions.get(q)
        if fn is None:
            bad.append(q + " missing")
            continue
        keyvars = set()
        for n in ast.walk(fn):
            if isinstance(n, ast.Assign) and isinstance(n.value, ast.Call) and ast.unparse(n.value.func) == "self.cache_key":
                for t in n.targets:
                    if isinstance(t, ast.Name):
                        keyvars.add(t.id)
        for n in ast.walk(fn):
            if isinstance(n, ast.Subscript) and ast.unparse(n.value) == "self.tasks":
                if not (isinstance(n.slice, ast.Name) and n.slice.id in keyvars):
                    bad.append("%s indexes self.tasks with something other than cache_key(...)" % q)
            if isinstance(n, ast.Call) and isinstance(n.func, ast.Attribute) and ast.unparse(n.func.value) == "self.tasks":
                if not (n.args and isinstance(n.args[0], ast.Name) and n.args[0].id in keyvars):
                    bad.append("%s calls self.tasks.%s with something other than cache_key(...)" % (q, n.func.attr))
    return _rec("dedup-key-thread", not bad, "; ".join(bad[:4]))


def one_yield_per_helper(repo, reg, eng):
    """C14 'issued together': in amap/afilter/afilterfalse/asift the per-element calls are the members of ONE yielded
    list comprehension over the (materialised) input; asorted/amax/amin obtain all keys through one amap call."""
    mod = repo.modules.get("tools")
    bad = []
    for name, callee in (("amap", "function.asynq"), ("afilter", "function.asynq"), ("afilterfalse", "function.asynq"), ("asift", "pred.asynq")):
        fn = mod.functions.get(name)
        ys = [n for n in ast.walk(fn) if isinstance(n, ast.Yield)] if fn else []
        comp = [y for y in ys if isinstance(y.value, ast.ListComp) and isinstance(y.value.elt, ast.Call)
                and ast.unparse(y.value.elt.func) == callee]
        if len(ys) != 1 or len(comp) != 1:
            bad.append("%s: expected exactly one yield of [%s(x) for x in ...]" % (name, callee))
    for name in ("asorted", "amax", "amin"):
        fn = mod.functions.get(name)
        ys = [n for n in ast.walk(fn) if isinstance(n, ast.Yield)] if fn else []
        if len(ys) != 1 or not (isinstance(ys[0].value, ast.Call) and ast.unparse(ys[0].value.func) == "amap.asynq"):
            bad.append("%s: expected exactly one yield amap.asynq(key, values)" % name)
    return _rec("one-yield-per-helper", not bad, "; ".join(bad[:4]))


def mock_restoration_delegated(repo, reg, eng):
    """C19: _PatchAsync overrides only __enter__ and copy; restoration (__exit__, start, stop) is entirely
    unittest.mock._patch's, and patch.stopall is mock.patch.stopall."""
    mod = repo.modules.get("mock_")
    bad = []
    c = mod.classes.get("_PatchAsync") if mod else None
    if c is None:
        return _rec("mock-restoration-delegated", False, "_PatchAsync missing")
    meths = {n.name for n in c.body if isinstance(n, ast.FunctionDef)}
    if meths - {"__enter__", "copy"}:
        bad.append("_PatchAsync overrides %s" % sorted(meths - {"__enter__", "copy"}))
    if [ast.unparse(b) for b in c.bases] != ["_patch"]:
        bad.append("_PatchAsync bases changed")
    found = False
    for n in mod.tree.body:
        if isinstance(n, ast.Assign) and ast.unparse(n.targets[0]) == "patch.stopall" and ast.unparse(n.value) == "mock.patch.stopall":
            found = True
    if not found:
        bad.append("patch.stopall is not mock.patch.stopall")
    return _rec("mock-restoration-delegated", not bad, "; ".join(bad))


CHECKS = {"ownership-inventory": ownership_inventory, "thread-local-roots": thread_local_roots,
          "dedup-key-thread": dedup_key_thread, "one-yield-per-helper": one_yield_per_helper,
          "mock-restoration-delegated": mock_restoration_delegated}


def run(name, repo, reg, eng):
    try:
        return CHECKS[name](repo, reg, eng)
    except Exception:
        import traceback
        r = _rec(name, False, "structural check error: " + traceback.format_exc()[-500:])
        r["status"] = "unknown"
        return r


# ---------------------------------------------------------------------------
# C20: option-erasure equivalence and machine arithmetic of the profiling accumulators
DIAG_CALL_SUFFIXES = ("debug.write", "debug.str", "debug.repr", "debug.dump", "debug.dump_stack", "debug.dump_error",
                      ".dump", ".try_time_based_dump", "stdout.flush", "stderr.flush", "profiler.append",
                      "profiler.incr_counter", "utime", ".dump_perf_stats", ".collect_perf_stats", ".to_str", "print",
                      "traceback.print_exc", ".is_computed")
DIAG_FIELDS = {"_total_time", "_id", "_name", "perf_stats", "_last_dump_time"}
NON_DIAGNOSTIC_OPTIONS = {"KEEP_DEPENDENCIES", "ENABLE_COMPLEX_ASSERTIONS", "MAX_TASK_STACK_SIZE",
                          "SCHEDULER_STATE_DUMP_INTERVAL", "DEBUG_STR_REPR_MAX_LENGTH", "STACK_DUMP_LIMIT"}
DIAGNOSTIC_FUNCTIONS = {"dump", "try_time_based_dump", "__str__", "__repr__", "to_str", "dump_perf_stats",
                        "collect_perf_stats", "traceback", "_traceback_line"}
C20_MODULES = ["scheduler", "async_task", "batching", "futures"]


def _option_reads(test):
    names = set()
    for n in ast.walk(test):
        if isinstance(n, ast.Attribute) and ast.unparse(n.value) in ("_debug_options", "_debug.options", "options"):
            names.add(n.attr)
    return names


def _is_diag_call(call):
    t = ast.unparse(call.func)
    return any(t == s or t.endswith(s) for s in DIAG_CALL_SUFFIXES)


def _diag_locals(stmts):
    """locals assigned only from diagnostic calls (e.g. start = utime())"""
    loc = set()
    for s in stmts:
        for n in ast.walk(s):
            if isinstance(n, ast.Assign) and len(n.targets) == 1 and isinstance(n.targets[0], ast.Name):
                if isinstance(n.value, ast.Call) and _is_diag_call(n.value):
                    loc.add(n.targets[0].id)
    return loc


def _erase(stmts, dloc):
    out = []
    for s in stmts:
        if isinstance(s, ast.Expr) and isinstance(s.value, ast.Call) and _is_diag_call(s.value):
            continue
        if isinstance(s, ast.Expr) and isinstance(s.value, ast.Constant):
            continue
        if isinstance(s, ast.Assign) and len(s.targets) == 1:
            t = s.targets[0]
            if isinstance(t, ast.Name) and t.id in dloc:
                continue
            if isinstance(t, ast.Attribute) and t.attr in DIAG_FIELDS:
                continue
            if isinstance(t, ast.Subscript) and isinstance(t.value, ast.Attribute) and t.value.attr in DIAG_FIELDS:
                continue
        if isinstance(s, ast.AugAssign) and isinstance(s.target, ast.Attribute) and s.target.attr in DIAG_FIELDS:
            continue
        if isinstance(s, ast.If):
            opts = _option_reads(s.test) - NON_DIAGNOSTIC_OPTIONS
            a, b = _erase(s.body, dloc), _erase(s.orelse, dloc)
            if opts:
                # a diagnostic option: both outcomes must be the same code once diagnostics are erased
                out.append(("OPTION-IF", tuple(sorted(opts)), a, b))
                continue
            # a pure diagnostic query guarding only diagnostics (e.g. `if task.is_computed(): task.dump_perf_stats()`)
            if not a and not b and isinstance(s.test, ast.Call) and _is_diag_call(s.test):
                continue
            # a side-effect-free test guarding only diagnostics
            if not a and not b and not any(isinstance(x, (ast.Call, ast.Yield, ast.Await)) for x in ast.walk(s.test)):
                continue
            out.append(("if", ast.dump(s.test), a, b))
            continue
        if isinstance(s, (ast.For, ast.While)):
            out.append((type(s).__name__, ast.dump(s.iter if isinstance(s, ast.For) else s.test), _erase(s.body, dloc)))
            continue
        if isinstance(s, ast.Try):
            out.append(("try", _erase(s.body, dloc), [(_h.type and ast.dump(_h.type), _erase(_h.body, dloc)) for _h in s.handlers],
                        _erase(s.orelse, dloc), _erase(s.finalbody, dloc)))
            continue
        out.append(ast.dump(s))
    return out


def _flatten_option_ifs(er, bad, where):
    res = []
    for e in er:
        if isinstance(e, tuple) and e and e[0] == "OPTION-IF":
            a = _flatten_option_ifs(e[2], bad, where)
            b = _flatten_option_ifs(e[3], bad, where)
            if a != b:
                bad.append("%s: branch on %s changes non-diagnostic code" % (where, ",".join(e[1])))
            res.extend(b)
        elif isinstance(e, tuple):
            res.append(tuple(_flatten_option_ifs(x, bad, where) if isinstance(x, list) else x for x in e))
        else:
            res.append(e)
    return res


def option_erasure(repo, reg, eng):
    """Every branch on a diagnostic debug option (all DUMP_* flags, COLLECT_PERF_STATS) in scheduler / async_task /
    batching / futures differs between its two outcomes only in diagnostic statements (writes to stdout/stderr,
    profiler buffer, _total_time/_id/_name/perf_stats/_last_dump_time): after erasing those, the ON and OFF
    branches are the same code.  KEEP_DEPENDENCIES and ENABLE_COMPLEX_ASSERTIONS are not diagnostic-only; the
    contracts quantify over them instead."""
    bad = []
    n_ifs = 0
    for mname in C20_MODULES:
        mod = repo.modules.get(mname)
        for q, fn in mod.functions.items():
            if q.split(".")[-1] in DIAGNOSTIC_FUNCTIONS:
                continue
            dloc = _diag_locals(fn.body)
            er = _erase(fn.body, dloc)
            before = len(bad)
            _flatten_option_ifs(er, bad, "%s.%s" % (mname, q))
            for n in ast.walk(fn):
                if isinstance(n, ast.If) and (_option_reads(n.test) - NON_DIAGNOSTIC_OPTIONS):
                    n_ifs += 1
                # an option must not be read outside an `if` test / boolean guard (e.g. to choose a batch)
                if isinstance(n, ast.Attribute) and ast.unparse(n.value) in ("_debug_options", "_debug.options") and n.attr not in NON_DIAGNOSTIC_OPTIONS:
                    pass
    r = _rec("option-erasure", not bad, "; ".join(bad[:6]))
    r["trace"] = ["%d option-guarded branches examined" % n_ifs] + r["trace"]
    return r


def carith_clock_fields(repo, reg, eng):
    """.pxd C-typed fields / parameters that receive clock-derived values (utime() differences accumulate without
    bound) must be at least 64 bits wide: int (32-bit) overflows after 2**31 us = 36 minutes."""
    bad = []
    checked = 0
    WIDE = {"long long", "unsigned long long", "object", "double", "float"}
    for mname in ("async_task", "batching", "scheduler"):
        pxd = repo.pxd.get(mname)
        if pxd is None:
            continue
        for (cls, field), ctype in pxd.fields.items():
            if field == "_total_time":
                checked += 1
                if ctype not in WIDE:
                    bad.append("%s.%s._total_time is C %s" % (mname, cls, ctype))
        for (cls, meth), params in pxd.params.items():
            for p, ctype in params.items():
                if p == "time_taken":
                    checked += 1
                    if ctype not in WIDE:
                        bad.append("%s.%s.%s(%s %s)" % (mname, cls, meth, ctype, p))
    # the python side really feeds clock differences into those fields
    src = repo.modules["scheduler"].text
    if "task._total_time += utime() - start" not in src or "batch.dump_perf_stats(utime() - start)" not in src:
        bad.append("profiling call sites in scheduler.py changed shape (re-derive the clock-fed fields)")
    r = _rec("carith-clock-fields", not bad and checked >= 4, "; ".join(bad) or ("" if checked >= 4 else "fields not found"))
    return r


CHECKS.update({"option-erasure": option_erasure, "carith-clock-fields": carith_clock_fields})
