"""Scenario battery for C01-C08: small task programs over DebugBatch kinds with oracles taken from the
property statements (sequential reference evaluation, flush-composition logs, context event logs)."""
import itertools
from scenarios import scenario, fail


def _reset():
    from asynq import scheduler, batching, debug, profiler
    scheduler.reset()
    batching._debug_batch_state.batches.clear() if hasattr(batching, "_debug_batch_state") else None
    profiler.reset()


class FlushLog:
    """records the composition of every scheduler flush"""

    def __init__(self):
        from asynq import scheduler
        self.flushes = []
        self.events = []
        s = scheduler.get_scheduler()
        s.on_before_batch_flush.subscribe(self._before)
        s.on_after_batch_flush.subscribe(self._after)

    def _before(self, b):
        self.flushes.append(sorted(getattr(i, "_result", None) for i in b.items))
        self.events.append(("before", id(b)))

    def _after(self, b):
        self.events.append(("after", id(b)))


class BaseErr(BaseException):
    pass


# ---------------------------------------------------------------------------
@scenario(["async_task.AsyncTask._continue", "async_task.AsyncTask._continue_on_generator",
           "async_task.AsyncTask._accept_yield_result", "async_task.AsyncTask._queue_exit", "async_task.unwrap",
           "async_task.extract_futures", "scheduler.TaskScheduler.wait_for", "decorators."], ["C01", "C02"])
def core_values_match_sequential(req):
    """Trees of tasks yielding nested structures (tuples, lists, dicts, None, constants, batch items), result()/return, try/except around failing children (Exception and BaseException subclasses): value equals the sequential reference for fn(), .asynq().value() and yielding from another task."""
    import asynq
    from asynq import asynq as A, batching, futures, result, ConstFuture

    @A()
    def leaf(v):
        r = yield batching.DebugBatchItem("kind%d" % (v % 2), v)
        return r

    @A()
    def via_result(v):
        x = yield leaf.asynq(v)
        result(x + 100)
        return

    @A()
    def boom(exc):
        yield leaf.asynq(1)
        raise exc

    @A()
    def shape(kind):
        if kind == 0:
            r = yield (leaf.asynq(1), [leaf.asynq(2), None, ConstFuture(9)], {"a": leaf.asynq(3), "b": (leaf.asynq(4),)})
        elif kind == 1:
            r = yield [via_result.asynq(5), (), [], {}, None]
        elif kind == 2:
            r = yield leaf.asynq(6), leaf.asynq(7), leaf.asynq(8)
        elif kind == 3:
            r = yield None
        else:
            r = yield {"k": [leaf.asynq(1), (leaf.asynq(2), leaf.asynq(3))]}
        return r
    expect = {0: (1, [2, None, 9], {"a": 3, "b": (4,)}), 1: [105, (), [], {}, None], 2: (6, 7, 8), 3: None,
              4: {"k": [1, (2, 3)]}}

    @A()
    def recover(exc):
        got = []
        try:
            yield boom.asynq(exc)
        except type(exc) as e:
            got.append(e is exc)
        v = yield leaf.asynq(7)
        lst = yield [leaf.asynq(1), leaf.asynq(2)]
        return ("recovered", got, v, lst)

    @A()
    def outer(fn, *args):
        r = yield fn.asynq(*args)
        return r
    for kind, want in expect.items():
        for conv in ("call", "value", "yield"):
            _reset()
            got = shape(kind) if conv == "call" else shape.asynq(kind).value() if conv == "value" else outer(shape, kind)
            if got != want or type(got) is not type(want):
                return fail("value differs from sequential evaluation", program="shape(%d)" % kind, convention=conv,
                            got=repr(got), want=repr(want))
    for exc in (ValueError("v"), BaseErr("b")):
        for conv in ("call", "value", "yield"):
            _reset()
            try:
                got = recover(exc) if conv == "call" else recover.asynq(exc).value() if conv == "value" else outer(recover, exc)
            except BaseException as e:
                return fail("a child failure caught by the parent's try/except escaped instead", exc=repr(e), convention=conv,
                            failing_class=type(exc).__name__)
            if got != ("recovered", [True], 7, [1, 2]):
                return fail("recovery after a caught child failure differs from sequential evaluation", got=repr(got), convention=conv)
    # uncaught: same instance out of value()
    for exc in (ValueError("v"), BaseErr("b")):
        _reset()
        try:
            outer(boom, exc)
            return fail("uncaught child failure lost")
        except BaseException as e:
            if e is not exc:
                return fail("value() raised a different exception instance", got=repr(e), want=repr(exc))
    return None


@scenario(["async_task.AsyncTask.is_blocked", "async_task.AsyncTask._continue", "async_task.unwrap",
           "scheduler.TaskScheduler._handle_async_task", "async_task.AsyncTask._accept_error"], ["C02"])
def core_errors_after_all_siblings(req):
    """For every assignment of {ok, fails, already-failed future, blocked-on-batch} to 2-4 futures yielded together: the task is resumed only after every sibling finished, with the first failing future in structure order; a non-future is a TypeError."""
    from asynq import asynq as A, batching, futures

    done = []

    @A()
    def child(i, kind):
        if kind == "fail":
            raise KeyError(i)
        if kind == "slow":
            yield batching.DebugBatchItem("slow", i)
            yield batching.DebugBatchItem("slow2", i)
        elif kind == "slowfail":
            yield batching.DebugBatchItem("slow", i)
            done.append(i)
            raise KeyError(i)
        done.append(i)
        return i
    kinds = ["ok", "fail", "errfut", "slow", "slowfail"]
    for n in (2, 3, 4):
        for combo in itertools.product(kinds, repeat=n):
            if n == 4 and combo.count("ok") > 1:
                continue
            _reset()
            del done[:]
            observed = {}

            @A()
            def parent():
                futs = []
                for i, k in enumerate(combo):
                    futs.append(futures.ErrorFuture(KeyError(i)) if k == "errfut" else child.asynq(i, k))
                try:
                    r = yield futs
                    observed["result"] = r
                except KeyError as e:
                    observed["error"] = e.args[0]
                observed["all_done"] = all(f.is_computed() for f in futs)
                return 1
            parent()
            failing = [i for i, k in enumerate(combo) if k in ("fail", "errfut", "slowfail")]
            if not observed.get("all_done"):
                return fail("the task was resumed while a future it yielded was still uncomputed", yielded=list(combo),
                            observed=repr(observed))
            if failing:
                if observed.get("error") != failing[0]:
                    return fail("the first failing future in structure order must win", yielded=list(combo), observed=repr(observed))
            elif observed.get("result") != list(range(n)):
                return fail("wrong values", yielded=list(combo), observed=repr(observed))

    @A()
    def bad():
        try:
            yield [child.asynq(0, "ok"), 5]
        except TypeError:
            return "typeerror"
        return "no error"
    _reset()
    if bad() != "typeerror":
        return fail("a yielded non-future must be reported to the task as TypeError")
    for junk in (0, False, "", 0.0, 5, "x", object()):
        for wrap in (lambda j: j, lambda j: [child.asynq(0, "ok"), j], lambda j: (j, child.asynq(0, "ok")), lambda j: {"a": j}):
            @A()
            def yields_junk():
                try:
                    r = yield wrap(junk)
                except TypeError:
                    return "typeerror"
                return ("no error", r)
            _reset()
            got = yields_junk()
            if got != "typeerror":
                return fail("a yielded object that is not a future (nor None) must be reported to the task as TypeError",
                            yielded=repr(junk), got=repr(got))
    return None


@scenario(["async_task.extract_futures", "scheduler.TaskScheduler._handle_async_task", "async_task.AsyncTask.__init__",
           "async_task.AsyncTask._continue_on_generator", "scheduler.TaskScheduler._execute"], ["C03"])
def core_start_order_and_once(req):
    """Tasks yielded together in a tuple/list of 1-4 (also nested, also inside dict values) start in the order written; every body runs each step exactly once; an un-awaited task never starts; deep chains terminate."""
    from asynq import asynq as A, batching
    started = []
    steps = {}

    @A()
    def t(name, blocks=0):
        started.append(name)
        steps[name] = steps.get(name, 0) + 1
        for _ in range(blocks):
            yield batching.DebugBatchItem("o", name)
            steps[name] += 1
        return name
    shapes = {
        "pair": lambda: (t.asynq("a"), t.asynq("b")),
        "list2": lambda: [t.asynq("a", 1), t.asynq("b")],
        "triple": lambda: (t.asynq("a"), t.asynq("b", 1), t.asynq("c")),
        "four": lambda: [t.asynq("a"), t.asynq("b"), t.asynq("c"), t.asynq("d")],
        "nested": lambda: (t.asynq("a"), [t.asynq("b"), t.asynq("c")], (t.asynq("d"), t.asynq("e"))),
        "nested_pair_in_triple": lambda: [(t.asynq("a"), t.asynq("b")), t.asynq("c"), t.asynq("d")],
        "single": lambda: (t.asynq("a"),),
        "repeated": lambda: (lambda a: [a, t.asynq("b"), t.asynq("c"), a])(t.asynq("a")),
        "repeated_nested": lambda: (lambda a: (a, [t.asynq("b"), a], t.asynq("c")))(t.asynq("a")),
    }
    for name, mk in shapes.items():
        _reset()
        del started[:]
        steps.clear()

        @A()
        def parent():
            never = t.asynq("never")
            r = yield mk()
            return r
        parent()
        want = sorted(set(started) - {"never"})
        if "never" in started:
            return fail("a task that was created but never yielded or waited on started", shape=name)
        if started != want:
            return fail("tasks yielded together must start in the order written", shape=name, started=list(started), want=want)
    # exactly once per yield
    _reset()
    steps.clear()

    @A()
    def multi():
        yield [t.asynq("x", 2), t.asynq("y", 1), t.asynq("z", 3)]
        return 0
    multi()
    if steps != {"x": 3, "y": 2, "z": 4}:
        return fail("each task must be resumed exactly once per yield", steps=dict(steps))

    @A()
    def chain(n):
        if n == 0:
            return 0
        r = yield chain.asynq(n - 1)
        return r + 1
    _reset()
    if chain(3000) != 3000:
        return fail("deep chain result")
    return None


@scenario(["scheduler.TaskScheduler.wait_for", "scheduler.TaskScheduler._execute", "scheduler.TaskScheduler._handle_async_task",
           "scheduler.TaskScheduler._continue_with_batch", "async_task.extract_futures", "scheduler.TaskScheduler._schedule_batch"],
          ["C04", "C05"])
def core_maximal_batching(req):
    """Single batch kind: balanced trees flush once, chains of n flush n times, mixed depths flush exactly longest-chain times with every issuable request in the flush, also when futures hide inside dict/tuple/list members and when a task makes a nested synchronous call; nothing is flushed once the waited-for computation is complete."""
    from asynq import asynq as A, batching

    @A()
    def get(v):
        r = yield batching.DebugBatchItem("k", v)
        return r

    @A()
    def chain(v, n):
        for i in range(n):
            yield get.asynq(v * 10 + i)
        return v

    programs = {}

    @A()
    def tree():
        r = yield [get.asynq(1), (get.asynq(2), get.asynq(3)), {"x": get.asynq(4), "y": [get.asynq(5)]}]
        return r
    programs["tree"] = (tree, 1, [[1, 2, 3, 4, 5]])

    @A()
    def dict_members():
        r = yield [{"id": get.asynq(1), "name": get.asynq(2)}, get.asynq(3)]
        return r
    programs["dict_members"] = (dict_members, 1, [[1, 2, 3]])

    @A()
    def tuple_with_dict():
        r = yield (get.asynq(1), {"x": get.asynq(2)})
        return r
    programs["tuple_with_dict"] = (tuple_with_dict, 1, [[1, 2]])

    @A()
    def mixed():
        r = yield [chain.asynq(1, 1), chain.asynq(2, 3), chain.asynq(3, 2)]
        return r
    programs["mixed"] = (mixed, 3, [[10, 20, 30], [21, 31], [22]])

    @A()
    def chain5():
        yield chain.asynq(7, 5)
    programs["chain5"] = (chain5, 5, None)

    @A()
    def failing_dep():
        raise KeyError("dep")
        yield

    @A()
    def recovers_then_requests():
        try:
            yield failing_dep.asynq()
        except KeyError:
            pass
        r = yield get.asynq(2)
        return r

    @A()
    def recovery_next_to_pending_sibling():
        r = yield [get.asynq(1), recovers_then_requests.asynq()]
        return r
    programs["recovery_next_to_pending_sibling"] = (recovery_next_to_pending_sibling, 1, [[1, 2]])

    @A()
    def const_then_request():
        from asynq import ConstFuture
        a = yield ConstFuture(5)
        b = yield None
        r = yield get.asynq(3)
        return r

    @A()
    def immediate_steps_next_to_pending_sibling():
        r = yield [get.asynq(1), const_then_request.asynq(), get.asynq(2)]
        return r
    programs["immediate_steps_next_to_pending_sibling"] = (immediate_steps_next_to_pending_sibling, 1, [[1, 2, 3]])

    @A()
    def sync_inside():
        return get(50)          # synchronous call nested in a task

    @A()
    def with_nested_sync():
        r = yield [get.asynq(1), get.asynq(2), sync_inside.asynq(), get.asynq(3)]
        return r
    for name, (prog, nflush, comp) in programs.items():
        _reset()
        log = FlushLog()
        prog()
        if len(log.flushes) != nflush:
            return fail("number of flushes differs from the longest chain of dependent requests", program=name,
                        flushes=log.flushes, expected=nflush)
        if comp is not None and log.flushes != comp:
            return fail("a request that was issuable before a flush did not travel in it", program=name, flushes=log.flushes,
                        expected=comp)
    _reset()
    log = FlushLog()
    got = with_nested_sync()
    if got != [1, 2, 50, 3]:
        return fail("nested synchronous call: wrong values", got=repr(got))
    # the nested call may flush what is pending for it; afterwards the remaining requests travel together
    flat = sorted(x for f in log.flushes for x in f)
    if flat != [1, 2, 3, 50] or len(log.flushes) > 2 or any(len(f) == 0 for f in log.flushes):
        return fail("flush composition around a nested synchronous call", flushes=log.flushes)
    if len(log.flushes) == 2 and 3 not in log.flushes[1] and sorted(log.flushes[0]) != [1, 2, 3, 50]:
        pass

    # nothing is flushed once the computation being waited for is complete
    @A()
    def quick():
        return 5

    @A()
    def sibling_pending():
        a = get.asynq(1)
        b = get.asynq(2)

        @A()
        def calls_sync():
            return quick()       # completes without needing any flush
        r = yield [a, calls_sync.asynq(), b, get.asynq(3)]
        return r
    _reset()
    log = FlushLog()
    if sibling_pending() != [1, 5, 2, 3]:
        return fail("wrong values in sibling_pending")
    if log.flushes != [[1, 2, 3]]:
        return fail("a nested call that was already complete must not flush pending batches of its siblings",
                    flushes=log.flushes, expected=[[1, 2, 3]])
    return None


@scenario(["scheduler.TaskScheduler._select_batch_to_flush", "batching.BatchBase.get_priority",
           "scheduler.TaskScheduler._flush_batch", "batching.BatchBase.flush", "batching.BatchBase._compute"], ["C05", "C20"])
def core_priority_and_once(req):
    """Two or three batch kinds with all small item-count assignments: the largest is flushed first (default priority), every batch flushed at most once, every item answered by its flush, before/after events paired, also with KEEP_DEPENDENCIES on and a batch flushed outside the scheduler."""
    from asynq import asynq as A, batching, debug
    for keep in (False, True):
        debug.options.KEEP_DEPENDENCIES = keep
        try:
            for counts in itertools.product([1, 2, 3], repeat=3):
                if len(set(counts)) < 3:
                    continue
                _reset()
                log = FlushLog()

                @A()
                def get(kind, v):
                    r = yield batching.DebugBatchItem(kind, (kind, v))
                    return r

                @A()
                def root():
                    futs = []
                    for k, c in zip("abc", counts):
                        futs += [get.asynq(k, i) for i in range(c)]
                    r = yield futs
                    return r
                got = root()
                want = [(k, i) for k, c in zip("abc", counts) for i in range(c)]
                if got != want:
                    return fail("items not answered with what their flush set", counts=counts, KEEP_DEPENDENCIES=keep)
                sizes = [len(f) for f in log.flushes]
                if sizes != sorted(counts, reverse=True):
                    return fail("pending batch with the most items must be flushed first; each batch once", counts=counts,
                                flush_sizes=sizes, KEEP_DEPENDENCIES=keep)
                ev = [e[0] for e in log.events]
                if ev != ["before", "after"] * 3:
                    return fail("before/after flush events not paired once around each flush", events=ev)
            # a scheduled batch flushed outside the scheduler must not be flushed again
            _reset()
            log = FlushLog()

            @A()
            def item_sync():
                it = batching.DebugBatchItem("z", 1)
                other = batching.DebugBatchItem("z", 2)

                @A()
                def waits_other():
                    r = yield other
                    return r

                @A()
                def forces():
                    yield batching.DebugBatchItem("y", 0)
                    return it.value()          # synchronous flush of batch z outside the scheduler loop
                r = yield [waits_other.asynq(), forces.asynq(), batching.DebugBatchItem("y", 9)]
                more = yield batching.DebugBatchItem("z", 3)
                return r, more
            try:
                got = item_sync()
            except BaseException as e:
                return fail("computation fails%s" % (" only with KEEP_DEPENDENCIES" if keep else ""), exc=repr(e), KEEP_DEPENDENCIES=keep)
            if got != ([2, 1, 9], 3):
                return fail("wrong values after an out-of-scheduler flush", got=repr(got), KEEP_DEPENDENCIES=keep)
        finally:
            debug.options.KEEP_DEPENDENCIES = False
    return None


class Ctx:
    pass


def _mk_ctx(log):
    from asynq import contexts

    class C(contexts.AsyncContext):
        def __init__(self, name):
            self.name = name
            self.active = 0

        def resume(self):
            self.active += 1
            log.append(("resume", self.name))

        def pause(self):
            self.active -= 1
            log.append(("pause", self.name))
    return C


def _alternates(log):
    state = {}
    for ev, name in log:
        s = state.get(name, 0)
        if ev == "resume":
            if s != 0:
                return "resume of %s while already active" % name
            state[name] = 1
        elif ev == "pause":
            if s != 1:
                return "pause of %s while not active" % name
            state[name] = 0
    bad = [n for n, s in state.items() if s != 0]
    if bad:
        return "contexts left active at the end: %s" % bad
    return None


def _nested_ok(log):
    stack = []
    for ev, name in log:
        if ev == "resume":
            stack.append(name)
        elif ev == "pause":
            if not stack or stack[-1] != name:
                return "pause of %s while %s was resumed last" % (name, stack[-1] if stack else None)
            stack.pop()
    return None


@scenario(["async_task.AsyncTask._pause_contexts", "async_task.AsyncTask._resume_contexts", "async_task.AsyncTask._enter_context",
           "async_task.AsyncTask._leave_context", "contexts.", "scheduler.TaskScheduler._handle_async_task",
           "scheduler.TaskScheduler._continue_with_task", "scoped_value."], ["C06", "C07"])
def core_context_events(req):
    """Programs with with-blocks (nested, sequential in one step, spanning yields, in several pending tasks, left by exception / result()): resume/pause strictly alternate starting with resume and ending with pause, activations are properly nested, the context is paused while other tasks run or a batch is flushed, scoped values read the innermost override and are restored afterwards."""
    from asynq import asynq as A, batching, scoped_value, result
    from asynq.scoped_value import AsyncScopedValue, async_override
    log = []
    C = _mk_ctx(log)
    probe = {}

    class FL(batching.DebugBatch):
        pass

    @A()
    def worker(name, depth):
        with C(name + "1"):
            yield batching.DebugBatchItem("k", name)
            with C(name + "2"):
                for i in range(depth):
                    yield batching.DebugBatchItem("k", name + str(i))
        return name

    @A()
    def seq_blocks(name):
        with C(name + "A"):
            pass
        with C(name + "B"):
            yield batching.DebugBatchItem("k", name)
        with C(name + "C"):
            yield batching.DebugBatchItem("k", name)
            yield batching.DebugBatchItem("k", name)
        return name

    @A()
    def leaves_by_exception(name):
        try:
            with C(name + "X"):
                yield batching.DebugBatchItem("k", name)
                raise KeyError(name)
        except KeyError:
            pass
        with C(name + "R"):
            yield batching.DebugBatchItem("k", name)
            result(name)
            return

    @A()
    def root(kind):
        if kind == 0:
            r = yield [worker.asynq("a", 1), worker.asynq("b", 2), worker.asynq("c", 0)]
        elif kind == 1:
            r = yield [seq_blocks.asynq("s"), worker.asynq("w", 1), seq_blocks.asynq("t")]
        elif kind == 2:
            with C("outer"):
                r = yield [leaves_by_exception.asynq("e"), worker.asynq("v", 1)]
        else:
            with C("o1"):
                with C("o2"):
                    r = yield [worker.asynq("p", 2), seq_blocks.asynq("q"), leaves_by_exception.asynq("r")]
        return r
    for kind in range(4):
        _reset()
        del log[:]
        active_at_flush = []
        from asynq import scheduler
        s = scheduler.get_scheduler()
        snapshot = lambda b: active_at_flush.append([n for n, st in _state(log).items() if st])
        s.on_before_batch_flush.subscribe(snapshot)
        root(kind)
        msg = _alternates(log) or _nested_ok(log)
        if msg:
            return fail("context events: " + msg, program=kind, events=list(log)[:60])
        for act in active_at_flush:
            if act:
                return fail("a context was active while a batch was flushed with its task suspended", program=kind, active=act)
    # scoped values
    sv = AsyncScopedValue("default")

    class Obj:
        attr = "orig"
    obj = Obj()
    seen = {}

    @A()
    def reader(name, v):
        with sv.override(v):
            with async_override(obj, "attr", v + "_attr"):
                seen[name + "_in1"] = (sv.get(), obj.attr)
                yield batching.DebugBatchItem("k", name)
                with sv.override(v + "_inner"):
                    with async_override(obj, "attr", v + "_inner_attr"):
                        seen[name + "_in2"] = (sv(), obj.attr)
                        yield batching.DebugBatchItem("k", name)
                        seen[name + "_in3"] = (sv.get(), obj.attr)
                seen[name + "_in4"] = (sv.get(), obj.attr)
        seen[name + "_out"] = (sv.get(), obj.attr)
        return name

    @A()
    def sv_root(fail_child):
        with sv.override("root"):
            try:
                yield [reader.asynq("x", "vx"), reader.asynq("y", "vy"), boom.asynq() if fail_child else reader.asynq("z", "vz")]
            except KeyError:
                pass
            seen["root_after"] = (sv.get(), obj.attr)
        return 0

    @A()
    def boom():
        with sv.override("boom"):
            yield batching.DebugBatchItem("k", 0)
            raise KeyError("boom")
    for fail_child in (False, True):
        _reset()
        seen.clear()
        sv_root(fail_child)
        for n, v in (("x", "vx"), ("y", "vy")):
            want = {n + "_in1": (v, v + "_attr"), n + "_in2": (v + "_inner", v + "_inner_attr"),
                    n + "_in3": (v + "_inner", v + "_inner_attr"), n + "_in4": (v, v + "_attr"), n + "_out": ("root", "orig")}
            for k, w in want.items():
                if seen.get(k) != w:
                    return fail("scoped value read differs from what sequential code would read", where=k, got=repr(seen.get(k)),
                                want=repr(w), failing_sibling=fail_child)
        if seen.get("root_after") != ("root", "orig"):
            return fail("override of the awaiting task not in force after its children", got=repr(seen.get("root_after")))
        if (sv.get(), obj.attr) != ("default", "orig"):
            return fail("overridden values not restored after the computation", got=repr((sv.get(), obj.attr)), failing_sibling=fail_child)
    return None


def _state(log):
    st = {}
    for ev, name in log:
        st[name] = 1 if ev == "resume" else 0
    return st


@scenario(["async_task.AsyncTask._resume_contexts", "async_task.AsyncTask._pause_contexts"], ["C06", "C07"])
def core_context_hook_failures(req):
    """Nested contexts where one context's resume() (or pause()) raises at a later activation: every OTHER context of the task still sees strictly alternating resume/pause, resumed in entry order and paused in reverse order."""
    from asynq import asynq as A, batching, contexts
    for failing, hook, at in [("outer", "resume", 2), ("mid", "resume", 2), ("inner", "resume", 2), ("outer", "resume", 3)]:
        log = []

        class C(contexts.AsyncContext):
            def __init__(self, name):
                self.name = name
                self.n = {"resume": 0, "pause": 0}

            def resume(self):
                self.n["resume"] += 1
                log.append(("resume", self.name))
                if self.name == failing and hook == "resume" and self.n["resume"] == at:
                    raise ValueError("resume failed")

            def pause(self):
                self.n["pause"] += 1
                log.append(("pause", self.name))

        @A()
        def t():
            with C("outer"):
                with C("mid"):
                    with C("inner"):
                        yield batching.DebugBatchItem("k", 1)
                        yield batching.DebugBatchItem("k", 2)
            return 1
        _reset()
        try:
            t()
        except ValueError:
            pass
        # contexts other than the failing one must alternate strictly
        for name in ("outer", "mid", "inner"):
            if name == failing:
                continue
            evs = [e for e, n in log if n == name]
            for a, b in zip(evs, evs[1:]):
                if a == b:
                    return fail("resume/pause of a context do not alternate when another context's hook fails",
                                failing_context=failing, hook=hook, at_activation=at, context=name, its_events=evs)
            if evs and (evs[0] != "resume" or evs[-1] != "pause"):
                return fail("a context must start with resume and end with pause", context=name, its_events=evs, failing_context=failing)
    return None


@scenario(["scoped_value."], ["C07"])
def scoped_value_unit(req):
    """Unit replay of the override contexts' contract: resume() saves the value current AT RESUME TIME and installs the override, pause() restores what resume saved; repeated resume/pause cycles under changing outer values; get/set/__call__ agree."""
    from asynq.scoped_value import AsyncScopedValue, async_override
    sv = AsyncScopedValue("d")
    if sv.get() != "d" or sv() != "d":
        return fail("get/__call__ of a fresh scoped value")
    sv.set("x")
    if sv.get() != "x":
        return fail("set/get")
    ctx = sv.override("ov")
    for outer in ("a", "b", "c"):
        sv.set(outer)                 # the enclosing value differs at each activation
        ctx.resume()
        if sv.get() != "ov":
            return fail("resume() must install the override", read=repr(sv.get()))
        ctx.pause()
        if sv.get() != outer:
            return fail("pause() must restore the value that was current when resume() ran", expected=outer, got=repr(sv.get()))

    class O:
        attr = "orig"
    o = O()
    pc = async_override(o, "attr", "ov")
    for outer in ("a", "b"):
        o.attr = outer
        pc.resume()
        if o.attr != "ov":
            return fail("async_override.resume() must install the override")
        pc.pause()
        if o.attr != outer:
            return fail("async_override.pause() must restore the value current at resume time", expected=outer, got=repr(o.attr))
    # with-statement use outside any task
    sv.set("base")
    with sv.override("w1"):
        if sv.get() != "w1":
            return fail("override not visible inside the with block")
        with sv.override("w2"):
            if sv() != "w2":
                return fail("inner override not visible")
        if sv.get() != "w1":
            return fail("inner override not undone")
    if sv.get() != "base":
        return fail("override not undone after the with block", got=repr(sv.get()))
    return None


@scenario(["contexts.NonAsyncContext", "async_task.AsyncTask._pause_contexts"], ["C06"])
def core_non_async_context(req):
    """A NonAsyncContext fails the task with AssertionError iff the task has to be suspended for a flush inside it."""
    from asynq import asynq as A, batching, contexts, ConstFuture

    class N(contexts.NonAsyncContext):
        pass

    @A()
    def no_suspend():
        with N():
            r = yield ConstFuture(3)
        return r

    @A()
    def suspends():
        with N():
            r = yield batching.DebugBatchItem("k", 1)
        return r
    _reset()
    try:
        if no_suspend() != 3:
            return fail("wrong value")
    except AssertionError:
        return fail("NonAsyncContext failed a task that was never suspended inside it")
    _reset()
    try:
        suspends()
        return fail("NonAsyncContext must fail a task suspended for a flush inside it")
    except AssertionError:
        pass
    return None


@scenario(["scheduler.TaskScheduler._continue_with_task", "scheduler.TaskScheduler._execute", "scheduler.TaskScheduler.reset",
           "scheduler.get_active_task", "scheduler.TaskScheduler.wait_for"], ["C08"])
def core_active_task_and_clean(req):
    """get_active_task() is the running task (also after nested synchronous calls) and None after the outermost call; after computations ending with a value, task/flush/context errors (resume or pause failing at any activation) or the runaway-recursion RuntimeError the scheduler keeps no task and the next computation behaves as on a fresh scheduler."""
    from asynq import asynq as A, batching, scheduler, contexts, debug
    seen = []

    @A()
    def inner(v):
        me = scheduler.get_active_task()
        r = yield batching.DebugBatchItem("k", v)
        seen.append(scheduler.get_active_task() is me)
        return r

    @A()
    def outer():
        me = scheduler.get_active_task()
        a = inner(1)                       # nested synchronous call
        seen.append(scheduler.get_active_task() is me)
        b = yield inner.asynq(2)
        seen.append(scheduler.get_active_task() is me)
        return a + b

    def clean(label):
        s = scheduler.get_scheduler()
        if len(s._tasks) or s.active_task is not None or scheduler.get_active_task() is not None:
            return fail("scheduler not clean after " + label, tasks=len(s._tasks), active=repr(s.active_task))
    _reset()
    del seen[:]
    if outer() != 3 or not all(seen) or len(seen) != 4:
        return fail("get_active_task() is not the running task", seen=list(seen))
    r = clean("a successful computation")
    if r:
        return r

    class Flaky(contexts.AsyncContext):
        def __init__(self, fail_resume_at=None, fail_pause_at=None):
            self.nr = self.np = 0
            self.fr, self.fp = fail_resume_at, fail_pause_at

        def resume(self):
            self.nr += 1
            if self.nr == self.fr:
                raise ValueError("resume %d" % self.nr)

        def pause(self):
            self.np += 1
            if self.np == self.fp:
                raise ValueError("pause %d" % self.np)
    for fr, fp in [(1, None), (2, None), (3, None), (None, 1), (None, 2)]:
        _reset()

        @A()
        def in_ctx():
            with Flaky(fr, fp):
                yield batching.DebugBatchItem("k", 1)
                yield batching.DebugBatchItem("k", 2)
            return "done"

        @A()
        def parent():
            try:
                r = yield in_ctx.asynq()
            except ValueError:
                r = "caught"
            return r
        try:
            got = parent()
        except ValueError:
            got = "escaped-as-ValueError"
        except BaseException as e:
            return fail("a context hook failure must fail the task with that error", fail_resume_at=fr, fail_pause_at=fp, exc=repr(e))
        r = clean("a context whose %s fails (activation %s)" % ("resume" if fr else "pause", fr or fp))
        if r:
            return r
        # the next computation behaves as on a fresh scheduler
        del seen[:]
        if outer() != 3 or not all(seen):
            return fail("computation after a failed one misbehaves", seen=list(seen))
        t = inner.asynq(5)
        if t.creator is not None:
            return fail("a task created after the computation ended has a stale creator", creator=repr(t.creator))
    # runaway recursion guard
    old = debug.options.MAX_TASK_STACK_SIZE
    debug.options.MAX_TASK_STACK_SIZE = 50
    debug.options.DUMP_PRE_ERROR_STATE = False
    try:
        _reset()

        @A()
        def wide(n):
            yield [inner.asynq(i) for i in range(n)]
        try:
            wide(200)
            return fail("runaway guard did not fire")
        except RuntimeError:
            pass
        r = clean("the runaway-recursion RuntimeError")
        if r:
            return r
        if len(scheduler.get_scheduler()._batches):
            return fail("batches retained after the runaway guard")

        @A()
        def mixed(n=0):
            # every level waits on a batch item (scheduled at once) and on one more level: never bottoms out
            yield batching.DebugBatchItem("rk", 1000 + n), mixed.asynq(n + 1)
        flushed = []
        s = scheduler.get_scheduler()
        try:
            mixed()
            return fail("runaway guard did not fire (mixed)")
        except RuntimeError:
            pass
        r = clean("the runaway-recursion RuntimeError with batches already scheduled")
        if r:
            return r
        s = scheduler.get_scheduler()
        if len(s._batches):
            return fail("the scheduler retained batches of the aborted computation after the runaway guard", batches=len(s._batches))
        s.on_before_batch_flush.subscribe(lambda b: flushed.append(sorted(i._result for i in b.items)))
        debug.options.MAX_TASK_STACK_SIZE = old
        _ = inner(7)
        debug.options.MAX_TASK_STACK_SIZE = 50
        if any(x != [7] for x in flushed):
            return fail("a batch of the aborted computation was flushed during the next computation", flushed=repr(flushed))
    finally:
        debug.options.MAX_TASK_STACK_SIZE = old
        debug.options.DUMP_PRE_ERROR_STATE = True
    return None


@scenario(["contexts.AsyncContext.__exit__"], ["C06"])
def core_double_pause_on_failure(req):
    """A task suspended inside `with Outer(): with NonAsync():` (or inside a context whose pause() raises) is failed; its generator is closed and the enclosing with-blocks run __exit__: every context must still see strictly alternating resume/pause."""
    from asynq import asynq as A, batching, contexts
    log = []
    C = _mk_ctx(log)

    class N(contexts.NonAsyncContext):
        pass

    @A()
    def t():
        with C("outer"):
            with N():
                yield batching.DebugBatchItem("k", 1)
        return 1
    _reset()
    del log[:]
    try:
        t()
    except AssertionError:
        pass
    msg = _alternates(log)
    if msg:
        return fail("context events after a task failed while suspended inside nested contexts: " + msg, events=list(log))
    return None


@scenario(["async_task.AsyncTask._computed", "async_task.AsyncTask._resume_contexts", "scheduler.TaskScheduler._continue_with_task",
           "scheduler.TaskScheduler._handle_async_task", "scheduler.TaskScheduler._execute"], ["C08", "C10"])
def core_cleanup_failure_on_close(req):
    """A task suspended inside a context is completed from outside (the context's resume() fails) while its generator is still alive; closing the generator runs the body's cleanup code, which raises.  The computation must still end with the scheduler clean, the awaiting task must receive the task's own error, subscribers are notified once, and the next computation behaves as on a fresh scheduler."""
    from asynq import asynq as A, batching, scheduler, contexts
    import io, contextlib

    for cleanup in ("finally", "exit"):
        class Ctx(contexts.AsyncContext):
            def __init__(self):
                self.n = 0

            def resume(self):
                self.n += 1
                if self.n >= 2:
                    raise KeyError("resume fails")

            def pause(self):
                pass

        class BadExit(object):
            def __enter__(self):
                return self

            def __exit__(self, *a):
                raise ValueError("cleanup raises")
        notified = []

        @A()
        def child():
            if cleanup == "finally":
                try:
                    with Ctx():
                        yield batching.DebugBatchItem("k", 1)
                finally:
                    raise ValueError("cleanup raises")
            else:
                with BadExit():
                    with Ctx():
                        yield batching.DebugBatchItem("k", 1)

        @A()
        def root():
            t = child.asynq()
            t.on_computed.subscribe(lambda _t: notified.append(1))
            try:
                yield t
            except Exception as e:
                return ("caught", type(e).__name__)
            return "no error"

        @A()
        def plain(x):
            v = yield batching.DebugBatchItem("k", x)
            return v
        _reset()
        outcome = None
        with contextlib.redirect_stdout(io.StringIO()), contextlib.redirect_stderr(io.StringIO()):
            try:
                outcome = ("returned", root())
            except Exception as e:
                outcome = ("escaped", type(e).__name__)
        s = scheduler.get_scheduler()
        if len(s._tasks) or len(s._batches) or s.active_task is not None:
            return fail("the scheduler retains tasks of a computation in which a failed task's cleanup code raised while its generator was closed",
                        cleanup=cleanup, outcome=repr(outcome), tasks=len(s._tasks), batches=len(s._batches), active=repr(s.active_task))
        if outcome != ("returned", ("caught", "KeyError")):
            return fail("the awaiting task did not receive the failed task's own error (the context's resume() error)",
                        cleanup=cleanup, outcome=repr(outcome))
        if notified != [1]:
            return fail("on_computed subscribers of the failed task were not notified exactly once", cleanup=cleanup, notified=len(notified))
        if plain(5) != 5 or len(s._tasks) or len(s._batches):
            return fail("the next computation on the same thread does not behave as on a fresh scheduler", cleanup=cleanup)
    return None


@scenario(["async_task.extract_futures", "async_task.AsyncTask._accept_yield_result"], ["C01", "C02", "C03", "C04"])
def extract_futures_unit(req):
    """extract_futures(value, acc) appends exactly the futures inside value: members of tuples/lists right to left, dict values left to right, every occurrence once, nothing else, existing entries untouched; _accept_yield_result makes exactly these the task's dependencies.  All structures of tuples, lists and dicts to depth 2 and width 3 over computed futures, pending futures, None and a repeated future."""
    from asynq import async_task, futures, asynq as A

    def ref(v, out):
        if v is None:
            pass
        elif isinstance(v, futures.FutureBase):
            out.append(v)
        elif type(v) is tuple or type(v) is list:
            for x in reversed(v):
                ref(x, out)
        elif type(v) is dict:
            for x in v.values():
                ref(x, out)
        return out
    f1, f2, f3 = futures.ConstFuture(1), futures.Future(lambda: 2), futures.ConstFuture(3)
    leaves = [f1, f2, None, f1]
    level1 = []
    for n in range(0, 4):
        for combo in itertools.product(leaves, repeat=n) if n <= 2 else [(f1, f2, f3), (f2, None, f1), (f1, f1, f2)]:
            level1.append(tuple(combo))
            level1.append(list(combo))
            level1.append({i: x for i, x in enumerate(combo)})
    structs = list(leaves) + level1
    for n in (1, 2, 3):
        for combo in itertools.islice(itertools.product(level1[::7] + [f3, None], repeat=n), 0, 400):
            structs.append(tuple(combo))
            structs.append(list(combo))
            structs.append({"k%d" % i: x for i, x in enumerate(combo)})
    sentinel = futures.ConstFuture("old")

    def first_occ(seq):
        out = []
        for x in seq:
            if not any(x is y for y in out):
                out.append(x)
        return out

    def start_order(deps):
        # dependencies are pushed on a stack in list order, so they start in reverse list order
        return first_occ(list(reversed(deps)))
    for v in structs:
        acc = [sentinel]
        got = async_task.extract_futures(v, acc)
        want = ref(v, [])
        new = acc[1:]
        ok = (got is acc and acc and acc[0] is sentinel and all(isinstance(x, futures.FutureBase) for x in new)
              and len(start_order(new)) == len(start_order(want))
              and all(a is b for a, b in zip(start_order(new), start_order(want))))
        if not ok:
            return fail("extract_futures does not append exactly the futures inside the value so that they start in the order written",
                        value=repr(v)[:300], got=[repr(x) for x in acc][:12], expected=[repr(x) for x in [sentinel] + want][:12])

    @A()
    def body():
        yield None
    for v in structs[:400]:
        t = body.asynq()
        t._accept_yield_result(v)
        want = ref(v, [])
        deps = list(t._dependencies)
        if (t._last_value is not v or len(start_order(deps)) != len(start_order(want))
                or any(a is not b for a, b in zip(start_order(deps), start_order(want)))):
            return fail("_accept_yield_result does not make exactly the futures inside the yielded value the task's dependencies, "
                        "starting in the order written", value=repr(v)[:300], got=[repr(x) for x in deps][:12],
                        expected=[repr(x) for x in want][:12])
    return None


@scenario(["contexts.AsyncContext.__exit__", "contexts.AsyncContext.__enter__", "contexts.leave_context", "contexts.enter_context"],
          ["C06", "C07"])
def core_hook_failure_at_block_boundary(req):
    """A save-and-restore context whose pause() raises while its with-block is being left (or whose resume() raises while it is being entered): the task catches the error and goes on to block on a batch.  The context must be gone for good: no further resume/pause reaches it, the task reads the outer value for the rest of its life, other tasks read the outer value, and the value is restored when the computation ends."""
    from asynq import asynq as A, batching, contexts, scoped_value
    for where in ("exit", "enter"):
        level = scoped_value.AsyncScopedValue("outer")
        events = []

        class Override(contexts.AsyncContext):
            def __init__(self, value):
                self.value = value
                self.fail_next_pause = False
                self.fail_next_resume = where == "enter"

            def resume(self):
                if self.fail_next_resume:
                    self.fail_next_resume = False
                    events.append("resume!")
                    raise RuntimeError("resume failed")
                self.old = level.get()
                level.set(self.value)
                events.append("resume")

            def pause(self):
                level.set(self.old)
                events.append("pause")
                if self.fail_next_pause:
                    self.fail_next_pause = False
                    raise RuntimeError("pause failed")

        @A()
        def reader():
            yield batching.DebugBatchItem("k", 0)
            return level.get()

        @A()
        def worker():
            seen = []
            ctx = Override("inner")
            try:
                with ctx:
                    seen.append(level.get())
                    yield batching.DebugBatchItem("k", 1)
                    seen.append(level.get())
                    ctx.fail_next_pause = True
            except RuntimeError:
                seen.append("caught")
            n = len(events)
            seen.append(level.get())
            yield batching.DebugBatchItem("k", 2)
            seen.append(level.get())
            yield batching.DebugBatchItem("k", 3)
            seen.append(level.get())
            return seen, events[n:]

        @A()
        def main():
            r = yield worker.asynq(), reader.asynq()
            return r
        _reset()
        try:
            (seen, later), other = main()
        except Exception as e:
            return fail("a hook failure at a with-block boundary that the task catches fails the computation", where=where,
                        error=repr(e)[:200], events=list(events))
        want = ["inner", "inner", "caught", "outer", "outer", "outer"] if where == "exit" else ["caught", "outer", "outer", "outer"]
        if seen != want or other != "outer":
            return fail("after a context's hook failed at the boundary of its with-block the task (or another task) does not read the outer value",
                        where=where, seen=seen, expected=want, other_task_read=other)
        if later:
            return fail("a context whose with-block was left (or never entered) still receives resume/pause calls", where=where, later=list(later))
        if level.get() != "outer":
            return fail("the overridden value is not restored after the computation", where=where, value=level.get())
    return None
