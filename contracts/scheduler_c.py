"""Contracts for asynq/scheduler.py (C05, C08, local parts of C02/C03/C04/C06)."""
import z3
from pyvc import smt
from pyvc.smt import V, NONE, NONE_MARK
from pyvc.state import fresh_name
from pyvc.contract import Contract as C

S = "scheduler.TaskScheduler."
ELIGIBLE = "eligible"


def q(n):
    return z3.Const(fresh_name(n), V)


def register(reg, repo):
    reg.elem_types[("TaskScheduler", "_tasks")] = "FutureBase"
    reg.elem_types[("TaskScheduler", "_batches")] = "BatchBase"
    reg.field_types[("TaskScheduler", "active_task")] = "AsyncTask"
    reg.field_types[("TaskScheduler", "on_before_batch_flush")] = "EventHook"
    reg.field_types[("TaskScheduler", "on_after_batch_flush")] = "EventHook"
    reg.field_types[("LocalTaskSchedulerState", "current")] = "TaskScheduler"
    reg.macro("eligible", ["b"], "len(b.items) > 0 and not computed(b)")
    reg.macro("blocked", ["t"], "any(not computed(t._dependencies[j]) for j in range(0, len(t._dependencies)))")
    # the stack below height h is untouched (same list object, same prefix)
    reg.macro("stack_kept", ["s", "h"],
              "s._tasks is old(s._tasks) and all(s._tasks[j] is old(s._tasks[j]) for j in range(0, h))")

    # ---- I-Sched ------------------------------------------------------------------------------
    def inv_sched(eng, heap):
        s = q("s!inv")
        j = z3.Int(fresh_name("j!inv"))
        b = q("b!inv")
        g = z3.And(heap.sel("$alloc", s), eng.isinstance_f(s, [eng.ct.cls("TaskScheduler")]))
        tl = heap.sel("_tasks", s)
        el = z3.Select(heap.sel("$litem", tl), j)
        bs = heap.sel("_batches", s)
        s2 = q("s2!inv")
        g2 = z3.And(heap.sel("$alloc", s2), eng.isinstance_f(s2, [eng.ct.cls("TaskScheduler")]))
        bb = q("bb!inv")
        gb = z3.And(heap.sel("$alloc", bb), eng.isinstance_f(bb, [eng.ct.cls("BatchBase")]))
        return [
            z3.ForAll([s, j], z3.Implies(z3.And(g, 0 <= j, j < heap.sel("$llen", tl)),
                                         z3.And(heap.sel("$alloc", el), eng.isinstance_f(el, [eng.ct.cls("FutureBase")]))),
                      patterns=[z3.Select(heap.sel("$litem", heap.sel("_tasks", s)), j)]),
            z3.ForAll([s, b], z3.Implies(z3.And(g, z3.Select(heap.sel("$smem", bs), b)),
                                         z3.And(heap.sel("$alloc", b), eng.isinstance_f(b, [eng.ct.cls("BatchBase")]))),
                      patterns=[z3.Select(heap.sel("$smem", heap.sel("_batches", s)), b)]),
            z3.ForAll([s], z3.Implies(g, z3.Or(heap.sel("active_task", s) == NONE,
                                               z3.And(heap.sel("$alloc", heap.sel("active_task", s)),
                                                      eng.isinstance_f(heap.sel("active_task", s), [eng.ct.cls("AsyncTask")])))),
                      patterns=[heap.sel("active_task", s)]),
            # ownership: a scheduler's stack is not shared with another scheduler nor with a batch's items list
            z3.ForAll([s, s2], z3.Implies(z3.And(g, g2, s != s2), heap.sel("_tasks", s) != heap.sel("_tasks", s2)),
                      patterns=[z3.MultiPattern(heap.sel("_tasks", s), heap.sel("_tasks", s2))]),
            z3.ForAll([s, bb], z3.Implies(z3.And(g, gb), heap.sel("_tasks", s) != heap.sel("items", bb)),
                      patterns=[z3.MultiPattern(heap.sel("_tasks", s), heap.sel("items", bb))]),
        ]
    reg.inv_hooks.append(inv_sched)

    # ---- T-sched: unless the scheduler was reset (its stack list replaced), a callout leaves the stack,
    #      the active task and the batch set object as they were (re-entrant use is balanced)
    def ts_sched(eng, old, new, skip=()):
        if "sched" in skip:
            return []
        s = q("s!ts")
        g = z3.And(old.sel("$alloc", s), eng.isinstance_f(s, [eng.ct.cls("TaskScheduler")]))
        tl = old.sel("_tasks", s)
        ntl = new.sel("_tasks", s)
        return [z3.ForAll([s], z3.Implies(g, z3.Or(ntl == tl, z3.Not(old.sel("$alloc", ntl)))),
                          patterns=[new.sel("_tasks", s)]),
                z3.ForAll([s], z3.Implies(z3.And(g, new.sel("_tasks", s) == tl),
                                          z3.And(new.sel("$llen", tl) == old.sel("$llen", tl),
                                                 new.sel("$litem", tl) == old.sel("$litem", tl),
                                                 new.sel("active_task", s) == old.sel("active_task", s),
                                                 new.sel("_batches", s) == old.sel("_batches", s))),
                          patterns=[new.sel("_tasks", s), new.sel("active_task", s)])]
    reg.two_state_hooks.append(ts_sched)

    # ---- event hooks around a flush -----------------------------------------------------------------
    reg.add(C("env.before_flush", params=["self", "batch"], kind="method", modifies="*", trusted=True,
              post=[], xpost=["True"], note="on_before_batch_flush(batch): subscribers are unknown code"))
    reg.add(C("env.after_flush", params=["self", "batch"], kind="method", modifies="*", trusted=True,
              post=[], xpost=["True"], note="on_after_batch_flush(batch): subscribers are unknown code"))

    reg.add(C(S + "try_time_based_dump", modifies=["_last_dump_time"], post=[], xpost=None, trusted=True,
              note="diagnostic (body checked under C18)"))
    reg.add(C(S + "dump", modifies=[], post=[], xpost=None, trusted=True, note="diagnostic (C18)"))
    reg.add(C("batching.BatchBase.dump_perf_stats", modifies=["_total_time", "stats_log"], post=[], xpost=None,
              trusted=True, note="profiling sink (range obligations under C20)"))
    reg.add(C("qcore.utime", params=[], modifies=[], post=[], xpost=None, trusted=True, returns_type="int",
              note="clock: unconstrained integer"))
    reg.global_calls["utime"] = "qcore.utime"

    # ---- reset / init -----------------------------------------------------------------------------------
    reg.add(C(S + "reset", modifies=["_batches", "_tasks", "active_task", "$alloc"],
              post=["len(self._tasks) == 0", "fresh(self._tasks)", "fresh(self._batches)",
                    "all(not has(self._batches, b) for b in vals())", "self.active_task is None",
                    "only(self, '_batches', '_tasks', 'active_task')"],
              xpost=None, two_state=False,
              labels={("post", 0): "reset-clears-stack", ("post", 3): "reset-clears-batches", ("post", 4): "reset-clears-active-task"}))

    # ---- batch selection ------------------------------------------------------------------------------
    reg.add(C(S + "_schedule_batch", modifies=["$smem"], types={"batch": "BatchBase"},
              post=["result == (not computed(batch))",
                    "implies(computed(batch), unchanged('$smem'))",
                    "implies(not computed(batch), set_add(self._batches, batch))"],
              xpost=None,
              labels={("post", 1): "flushed-batch-not-scheduled"}))

    reg.add(C(S + "_select_batch_to_flush",
              assumes=["lt_transitive()"],
              modifies=["$smem", "$alloc"],
              types={"batch": "BatchBase", "best_batch": "BatchBase", "batches_to_remove": "list",
                     "batches_to_remove[]": "BatchBase"},
              post=["(result is None) == (not any(old(has(self._batches, b)) and eligible(b) for b in vals()))",
                    "implies(result is not None, old(has(self._batches, result)) and eligible(result))",
                    "implies(result is not None, all(implies(old(has(self._batches, b)) and eligible(b), not lt(prio(result), prio(b))) for b in vals()))",
                    "all(has(self._batches, b) == (old(has(self._batches, b)) and eligible(b)) for b in vals())",
                    "unchanged('_batches')", "only(self._batches, '$smem')"],
              xpost=None,
              invariants={
                  1: ["_it1 is self._batches",
                      "(best_batch is None) == (not any(seen(b) and eligible(b) for b in vals()))",
                      "implies(best_batch is not None, seen(best_batch) and eligible(best_batch) and best_priority is prio(best_batch))",
                      "implies(best_batch is not None, all(implies(seen(b) and eligible(b), not lt(best_priority, prio(b))) for b in vals()))",
                      "batches_to_remove is None or (exact(batches_to_remove, list) and fresh(batches_to_remove) and len(batches_to_remove) > 0)",
                      "implies(batches_to_remove is None, all(implies(seen(b), eligible(b)) for b in vals()))",
                      "implies(batches_to_remove is not None, all(seen(batches_to_remove[j]) and not eligible(batches_to_remove[j]) for j in range(0, len(batches_to_remove))))",
                      "implies(batches_to_remove is not None, all(implies(seen(b) and not eligible(b), any(batches_to_remove[j] is b for j in range(0, len(batches_to_remove)))) for b in vals()))",
                      "implies(batches_to_remove is not None, all(all(implies(i < j, batches_to_remove[i] is not batches_to_remove[j]) for i in range(0, j)) for j in range(0, len(batches_to_remove))))",
                      ],
                  2: ["_it2 is batches_to_remove", "0 <= int(_i2) and int(_i2) <= len(batches_to_remove)",
                      "only(self._batches, '$smem')",
                      "all(has(self._batches, b) == (old(has(self._batches, b)) and not any(batches_to_remove[j] is b for j in range(0, int(_i2)))) for b in vals())",
                      ],
              },
              labels={("post", 0): "none-iff-nothing-eligible", ("post", 1): "result-is-eligible",
                      ("post", 2): "result-has-greatest-priority", ("post", 3): "drops-exactly-the-ineligible"}))

    reg.add(C(S + "_flush_batch", modifies="*", types={"batch": "BatchBase"},
              requires=["not computed(batch)"],
              calls={"self.on_before_batch_flush": "env.before_flush", "self.on_after_batch_flush": "env.after_flush"},
              post=["callcount('env.before_flush') == 1", "callcount('batching.BatchBase.flush') == 1",
                    "callcount('env.after_flush') == 1",
                    "call_before('env.before_flush', 'batching.BatchBase.flush')",
                    "call_before('batching.BatchBase.flush', 'env.after_flush')"],
              xpost=["callcount('env.before_flush') == 1",
                     "implies(callcount('batching.BatchBase.flush') == 1, callcount('env.after_flush') == 1)",
                     "call_before('batching.BatchBase.flush', 'env.after_flush')"],
              labels={("xpost", 1): "after-event-even-when-flush-fails", ("post", 1): "exactly-one-flush"}))

    reg.add(C(S + "_continue_with_batch", modifies="*",
              types={"batch": "BatchBase"},
              post=["implies(result is None, callcount('scheduler.TaskScheduler._flush_batch') == 0)",
                    "implies(result is not None, callcount('scheduler.TaskScheduler._flush_batch') == 1)",
                    "(result is None) == (not any(old(has(self._batches, b)) and old(eligible(b)) for b in vals()))"],
              xpost=["callcount('scheduler.TaskScheduler._flush_batch') == 1"],
              labels={"site_requires": {"self._flush_batch": ["not has(self._batches, batch)",
                                                              "batch is not None"]},
                      ("xpost", 0): "raises-only-from-the-flush",
                      ("post", 2): "flushes-iff-something-eligible"}))

    reg.add(C(S + "wait_for", modifies="*", types={"task": "AsyncTask"},
              post=["computed(task)"], xpost=["True"],
              invariants={1: ["inv()", "two_state('old')"]},
              labels={"site_requires": {"self._continue_with_batch": ["not computed(task)"]},
                      ("post", 0): "returns-only-when-task-computed"}))
