"""Replay harness: runs under /venv/bin/python with PYTHONPATH pointing at a
scratch pure-Python copy of the working tree (no .so files), so the text that
was verified is the text that runs.  Reads a request (failed obligation,
function, solver model) on stdin, runs the replay scenarios registered for
that function / property with the model's values where a scenario takes
them, and prints one JSON line: the first scenario whose oracle fails."""
import json
import os
import sys
import traceback

sys.path.insert(0, os.path.dirname(os.path.abspath(__file__)))


def main():
    req = json.loads(sys.stdin.read() or "{}")
    import scenarios
    fn = req.get("function", "")
    pid = req.get("property", "")
    todo = scenarios.select(fn, pid)
    if req.get("scenario"):
        # replay of a bounded stand-in's record: that scenario only
        todo = [f for _fns, _ps, f in scenarios.REG if f.__name__ == req["scenario"]]
    tried = []
    for sc in todo:
        try:
            r = sc(req)
        except Exception:
            r = {"what": "scenario crashed", "traceback": traceback.format_exc()[-1200:], "crash": True}
        tried.append(sc.__name__)
        if r:
            if r.get("crash"):
                # an unexpected exception escaping the real code is itself an observation
                pass
            out = {"replayed": True, "scenario": sc.__name__, "doc": (sc.__doc__ or "").strip(), "observed": r,
                   "tried": tried}
            print(json.dumps(out, default=str))
            return
    print(json.dumps({"replayed": False, "tried": tried,
                      "note": "no registered scenario reproduces the failed obligation on the real code"}))


if __name__ == "__main__":
    main()
