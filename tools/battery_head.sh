#!/bin/sh
# dev helper: run the scenario battery of property $1 on the committed HEAD of /repo (scratch copy from git)
pid=$1
rm -rf /tmp/sc_head && mkdir -p /tmp/sc_head && git -C /repo archive HEAD asynq | tar -x -C /tmp/sc_head
cd /tmp/sc_head && PYTHONPATH=/tmp/sc_head /venv/bin/python /verif/replay/battery.py $pid 2>&1 | tail -1 | python3 -c "
import sys, json
t=sys.stdin.read()
try:
    o=json.loads(t)
except Exception:
    print('$pid BAD OUTPUT', t[-1500:]); sys.exit()
print('$pid', [(s['scenario'], s['ok'], s['seconds']) for s in o['scenarios']])
for v in o['violations']: print('   VIOL', json.dumps(v)[:1800])"
cd /; rm -rf /tmp/sc_head
