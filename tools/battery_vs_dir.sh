#!/bin/sh
# dev helper: run the scenario battery of property $3 (default: same id) on a scratch copy with seeded change $1/$2 applied
dir=$1; id=$2; pid=${3:-$2}
t=$(mktemp -d /tmp/sc_test_XXXXXX)
git -C /repo archive HEAD asynq | tar -x -C $t
cd $t && patch -s -p1 < $dir/$id/patch.diff || exit 2
PYTHONPATH=$t /venv/bin/python /verif/replay/battery.py $pid 2>/dev/null | tail -1 | python3 -c "
import sys, json
o=json.loads(sys.stdin.read()); v=o['violations']
print('$dir/$id/$pid', 'CAUGHT' if v else 'missed', [x['name'].split(':')[-1]+': '+x['what'][:90] for x in v][:3])"
cd /; rm -rf $t
