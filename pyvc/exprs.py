"""Expression evaluation, call resolution, builtin models (mixin of FuncExec)."""
import ast
import z3
from . import smt
from .smt import V, NONE, TRUE, FALSE, NONE_MARK
from .state import fresh_v, fresh_int, fresh_name, field_sort, AVI, AVB
from .spec import SpecEnv, SpecError, as_v, as_bool, as_int

PY_EQ = z3.Function("py_eq", V, V, z3.BoolSort())
PY_LT = z3.Function("py_lt", V, V, z3.BoolSort())
FMT = {}
OPTION_BASES = {"_debug_options", "options"}

PXD_TYPE_MAP = {"list": "list", "set": "set", "dict": "dict", "bint": "bool", "int": "int", "long": "int",
                "str": "str", "tuple": "tuple", "float": "float", "type": "type"}


def opaque_fn(name, arity):
    key = (name, arity)
    if key not in FMT:
        FMT[key] = z3.Function(name, *([V] * arity + [V]))
    return FMT[key]


class ExprMixin:
    # ------------------------------------------------------------------
    # static types
    def field_static_type(self, cls, attr):
        if not cls:
            return None
        chain = self.eng.ct.ancestors(cls) if self.eng.ct.known(cls) else [cls]
        for c in chain:
            t = self.reg.field_types.get((c, attr))
            if t:
                return t
        t = self.eng.repo.pxd_field_type(cls, attr)
        if t:
            t = t.split(".")[-1]
            if t in PXD_TYPE_MAP:
                return PXD_TYPE_MAP[t]
            if self.eng.ct.known(t):
                return t
        return None

    def static_type(self, e, st):
        if isinstance(e, ast.Name):
            return st.ltypes.get(e.id)
        if isinstance(e, ast.Attribute):
            return self.field_static_type(self.static_type(e.value, st), e.attr)
        if isinstance(e, (ast.List, ast.ListComp)):
            return "list"
        if isinstance(e, ast.Tuple):
            return "tuple"
        if isinstance(e, (ast.Dict, ast.DictComp)):
            return "dict"
        if isinstance(e, (ast.Set, ast.SetComp)):
            return "set"
        if isinstance(e, ast.Constant):
            if isinstance(e.value, bool):
                return "bool"
            if isinstance(e.value, int):
                return "int"
            if isinstance(e.value, str):
                return "str"
            if e.value is None:
                return "NoneType"
            return None
        if isinstance(e, ast.Compare):
            return "bool"
        if isinstance(e, ast.UnaryOp) and isinstance(e.op, ast.Not):
            return "bool"
        if isinstance(e, ast.UnaryOp) and isinstance(e.op, ast.USub):
            return self.static_type(e.operand, st)
        if isinstance(e, ast.BinOp):
            a, b = self.static_type(e.left, st), self.static_type(e.right, st)
            if isinstance(e.op, ast.Mod) and a == "str":
                return "str"
            if a == b and a in ("int", "str", "list", "tuple"):
                return a
            return None
        if isinstance(e, ast.JoinedStr):
            return "str"
        if isinstance(e, ast.IfExp):
            a, b = self.static_type(e.body, st), self.static_type(e.orelse, st)
            return a if a == b else None
        if isinstance(e, ast.Subscript):
            bt = self.static_type(e.value, st)
            if bt == "list" and not isinstance(e.slice, ast.Slice):
                return self.iter_elem_type(e.value, st)
            if bt == "list":
                return "list"
            return None
        if isinstance(e, ast.Call):
            text = ast.unparse(e.func)
            if isinstance(e.func, ast.Name):
                n = e.func.id
                if n in ("list", "sorted"):
                    return "list"
                if n in ("tuple",):
                    return "tuple"
                if n in ("len", "id"):
                    return "int"
                if n in ("set", "dict"):
                    return n
                if n in ("isinstance", "hasattr", "callable"):
                    return "bool"
                if n in ("str", "repr"):
                    return "str"
                if n == "OrderedDict":
                    return "OrderedDict"
                if self.eng.ct.known(n) and n not in st.locals:
                    return n
            try:
                cn = self.resolve_contract_name(e, st)
            except Exception:
                cn = None
            if cn:
                c = self.reg.contracts.get(cn)
                if c and c.returns_type:
                    return c.returns_type
            # constructor through module alias  batching.DebugBatch(...)
            last = text.split(".")[-1]
            if self.eng.ct.known(last) and self.eng.repo.class_module(last) and text.split(".")[0] not in st.locals:
                return last
            return None
        return None

    # ------------------------------------------------------------------
    # allocation
    def alloc(self, st, clsname, exact=True):
        o = fresh_v("new_" + clsname)
        st.assume(z3.Not(st.heap.sel("$alloc", o)))
        st.assume(z3.And(V.is_obj(o), V.oid(o) > 0))
        # closedness: nothing that existed refers to a not-yet-allocated value
        self.assume_closed(st, o)
        st.heap.store("$alloc", o, z3.BoolVal(True))
        k = self.eng.ct.cls(clsname)
        st.assume(smt.typeof(o) == k if exact else smt.subclass(smt.typeof(o), k))
        for h in self.reg.fresh_hooks:
            h(self.eng, st, o, clsname)
        st.ghost["$alloc_cls"] = frozenset(st.ghost.get("$alloc_cls", frozenset())) | {clsname}
        return o

    def assume_closed(self, st, o):
        """Heap closedness w.r.t. a fresh object o: nothing that existed when o was
        allocated refers to o.  Fields present in the heap map are constrained on
        their current arrays now; fields created lazily later are constrained on
        their epoch base arrays by close_heap()."""
        done = set()
        for f in sorted(st.heap.arr):
            self._close_field(st, o, f, st.heap.arr[f])
            done.add(f)
        for n, v in st.locals.items():
            st.assume(v != o)
        st.fresh.append([o, st.heap.epoch, done])
        st.unescaped.append(o)

    def mark_escapes(self, st, values):
        """A fresh object escapes when it is stored into the heap or passed to a call: from then on unknown
        code may reach it.  Until then a callout cannot change its contents."""
        if not st.unescaped:
            return
        ids = set()
        todo = [v for v in values if z3.is_expr(v)]
        seen = set()
        while todo:
            e = todo.pop()
            i = e.get_id()
            if i in seen:
                continue
            seen.add(i)
            ids.add(i)
            # only value positions: branches of an ite (a read through select / function application
            # yields another value, it does not expose the container used as index)
            if z3.is_app(e) and e.decl().kind() == z3.Z3_OP_ITE:
                todo.extend([e.arg(1), e.arg(2)])
        st.unescaped = [o for o in st.unescaped if o.get_id() not in ids]

    def keep_unescaped(self, st, old, contents=True):
        """Objects allocated on this path that were never stored into the heap nor passed to a call cannot be
        reached by unknown code: their contents are unchanged and nothing in the new heap refers to them."""
        for o in st.unescaped:
            if contents:
                for f in ("$llen", "$litem", "$smem", "$dhas", "$dget", "$olen", "$okey", "$oval"):
                    if f in old.arr:
                        st.assume(st.heap.sel(f, o) == old.sel(f, o))
            st.assume(st.heap.sel("$alloc", o))
            st.fresh.append([o, st.heap.epoch, set()])

    def close_heap(self, st):
        for rec in st.fresh:
            o, ep, done = rec
            if ep != st.heap.epoch:
                continue
            for f in sorted(st.heap.arr):
                if f in done:
                    continue
                base = z3.Const("%s@%d" % (f, ep), field_sort(f))
                self._close_field(st, o, f, base)
                done.add(f)

    def _close_field(self, st, o, f, a):
        x = z3.Const(fresh_name("x!cl"), V)
        if f.startswith("$") and f not in ("$litem", "$smem", "$dget", "$oval", "$okey"):
            return
        if f in ("$litem", "$oval", "$okey"):
            i = z3.Const(fresh_name("i!cl"), z3.IntSort())
            st.assume(smt.forall([x, i], z3.Select(z3.Select(a, x), i) != o,
                                patterns=[z3.Select(z3.Select(a, x), i)]))
        elif f == "$smem":
            st.assume(smt.forall([x], z3.Not(z3.Select(z3.Select(a, x), o)),
                                patterns=[z3.Select(a, x)]))
        elif f == "$dget":
            y = z3.Const(fresh_name("y!cl"), V)
            st.assume(smt.forall([x, y], z3.Select(z3.Select(a, x), y) != o,
                                patterns=[z3.Select(z3.Select(a, x), y)]))
        else:
            st.assume(smt.forall([x], z3.Select(a, x) != o, patterns=[z3.Select(a, x)]))

    def attr_defined_by_runtime_class(self, st, o, static, attr):
        """The static class lacks `attr`, but the path condition may confine the object to subclasses that define it
        (e.g. after `isinstance(t, (AsyncTask, BatchItemBase))`): decided by the solver."""
        if self.dry:
            return True
        bases = self.eng.repo.class_bases()
        subs = []
        for c in bases:
            if c != static and self.eng.ct.known(c) and self.eng.ct.is_sub(c, static):
                names, _ = self.eng.repo.class_fields(c)
                if attr in names:
                    subs.append(c)
        if not subs:
            return False
        sol = z3.Solver()
        sol.set("timeout", 1000)
        sol.add(*self.eng.axioms())
        sol.add(*st.pc)
        sol.add(z3.Not(z3.Or(*[self.eng.isinstance_f(o, [self.eng.ct.cls(c)]) for c in subs])))
        return sol.check() == z3.unsat

    def format_calls_user_repr(self, e, st):
        """`fmt % operands`: does some %r/%s conversion receive an operand whose static type is not str/int/bool/None?"""
        fmt = e.left.value if isinstance(e.left, ast.Constant) and isinstance(e.left.value, str) else None
        if fmt is not None and "%r" not in fmt and "%s" not in fmt:
            return False
        ops = list(e.right.elts) if isinstance(e.right, ast.Tuple) else [e.right]
        for o in ops:
            if self.static_type(o, st) not in ("str", "int", "bool", "NoneType"):
                return True
        return False

    def new_exception(self, st, clsname, args=()):
        e = self.alloc(st, clsname)
        for i, a in enumerate(args):
            st.heap.store("$arg%d" % i, e, a)
        if self.eng.ct.is_sub(clsname, "StopIteration"):
            st.heap.store("value", e, args[0] if args else NONE)
            st.heap.store("$has:value", e, z3.BoolVal(True))
        return e

    def new_list(self, st, items=()):
        self.mark_escapes(st, list(items))
        o = self.alloc(st, "list")
        st.heap.store("$llen", o, z3.IntVal(len(items)))
        if items:
            arr = st.heap.sel("$litem", o)
            for i, v in enumerate(items):
                arr = z3.Store(arr, z3.IntVal(i), v)
            st.heap.store("$litem", o, arr)
        return o

    def new_tuple(self, st, items):
        self.mark_escapes(st, list(items))
        t = fresh_v("tuple")
        st.assume(smt.typeof(t) == self.eng.ct.cls("tuple"))
        st.assume(smt.tlen(t) == len(items))
        for i, v in enumerate(items):
            st.assume(smt.titem(t, z3.IntVal(i)) == v)
        st.assume(st.heap.sel("$alloc", t))
        return t

    # ------------------------------------------------------------------
    # expressions:   generator of (state, value, exc)
    def ev(self, e, st):
        m = getattr(self, "ev_" + type(e).__name__, None)
        if m is None:
            from .symexec import Undecided
            raise Undecided("unsupported expression %s at line %s: %s" % (type(e).__name__, getattr(e, "lineno", "?"), ast.unparse(e)))
        return m(e, st)

    def ev_list(self, es, st):
        if not es:
            yield st, [], None
            return
        for st1, v, x in self.ev(es[0], st):
            if x is not None:
                yield st1, None, x
                continue
            for st2, vs, x2 in self.ev_list(es[1:], st1):
                if x2 is not None:
                    yield st2, None, x2
                else:
                    yield st2, [v] + vs, None

    def ev_Constant(self, e, st):
        v = e.value
        if v is None:
            yield st, NONE, None
        elif v is True:
            yield st, TRUE, None
        elif v is False:
            yield st, FALSE, None
        elif isinstance(v, int):
            yield st, smt.mk_int(v), None
        elif isinstance(v, str):
            yield st, smt.const("str:" + v[:60]), None
        elif isinstance(v, float):
            yield st, smt.const("float:%r" % v), None
        elif v is Ellipsis:
            yield st, smt.const("Ellipsis"), None
        else:
            from .symexec import Undecided
            raise Undecided("constant %r" % (v,))

    def global_value(self, name, st):
        from .symexec import Undecided
        gv = self.reg.global_values.get((self.module.name, name)) or self.reg.global_values.get(name)
        if gv is not None:
            return gv(self.eng)
        if name in self.closure:
            return self.closure[name]
        if self.eng.ct.known(name):
            return self.eng.ct.cls(name)
        if name in self.module.functions:
            return smt.const("fn:%s.%s" % (self.module.name, name))
        # module-level constant  NAME = <literal>
        for node in self.module.tree.body:
            if isinstance(node, ast.Assign) and len(node.targets) == 1 and isinstance(node.targets[0], ast.Name) \
                    and node.targets[0].id == name and isinstance(node.value, ast.Constant):
                v = node.value.value
                if isinstance(v, bool):
                    return TRUE if v else FALSE
                if isinstance(v, int):
                    return smt.mk_int(v)
                if isinstance(v, str):
                    return smt.const("str:" + v[:60])
                if v is None:
                    return NONE
        if name in self.module.aliases:
            return smt.const("mod:" + name)
        if name == "NotImplemented":
            return smt.NOTIMPL
        if name in ("len", "repr", "str", "type", "isinstance", "max", "min", "sorted", "list", "tuple", "filter", "print"):
            return smt.const("builtin:" + name)
        raise Undecided("unknown global name %s (line?) in %s" % (name, self.qual))

    def ev_Name(self, e, st):
        if e.id in st.locals:
            yield st, st.locals[e.id], None
        else:
            yield st, self.global_value(e.id, st), None

    def is_module_ref(self, e, st):
        """Is expression e a reference to a module / class namespace (not a value
        we track)?  Returns dotted text or None."""
        if isinstance(e, ast.Name):
            if e.id in st.locals:
                return None
            if e.id in self.module.aliases or e.id in self.eng.repo.modules:
                return e.id
            if self.eng.ct.known(e.id) and self.eng.repo.class_module(e.id):
                return e.id
            return None
        if isinstance(e, ast.Attribute):
            b = self.is_module_ref(e.value, st)
            if b is not None:
                # module.attr where attr is a submodule or class
                if e.attr in self.eng.repo.modules or (self.eng.ct.known(e.attr) and self.eng.repo.class_module(e.attr)):
                    return b + "." + e.attr
                if b in ("asynq", "qcore"):
                    return b + "." + e.attr
            return None
        return None

    def ev_Attribute(self, e, st):
        from .symexec import Undecided
        text = ast.unparse(e)
        # debug options
        base = e.value
        bt = ast.unparse(base)
        if (isinstance(base, ast.Name) and base.id in OPTION_BASES and base.id not in st.locals) or bt.endswith("_debug.options"):
            o = self.eng.option(e.attr)
            yield st, (smt.box(o) if o.sort() == z3.IntSort() else smt.b2v(o)), None
            return
        mref = self.is_module_ref(base, st)
        if mref is not None:
            key = (mref.split(".")[-1], e.attr)
            gv = self.reg.global_values.get(key) or self.reg.global_values.get(text)
            if gv is not None:
                yield st, gv(self.eng), None
                return
            if self.eng.ct.known(e.attr):
                yield st, self.eng.ct.cls(e.attr), None
                return
            yield st, smt.const("ref:" + mref.split(".")[-1] + "." + e.attr), None
            return
        for st2, o, x in self.ev(base, st):
            if x is not None:
                yield st2, None, x
                continue
            t = self.static_type(base, st2)
            if t and self.eng.repo.class_module(t) and not self.contract.labels.get("noattrcheck"):
                names, _ = self.eng.repo.class_fields(t)
                if (e.attr not in names and e.attr not in self.reg.presence_fields and not e.attr.startswith("__")
                        and not self.attr_defined_by_runtime_class(st2, o, t, e.attr)):
                    # attribute the class never defines: AttributeError (unless a subclass adds it: assumed not)
                    exc = self.new_exception(st2, "AttributeError")
                    st2.trace.append("L%d: %s has no attribute %s" % (e.lineno, t, e.attr))
                    yield st2, None, exc
                    continue
            if e.attr in self.reg.presence_fields and self.contract.labels.get("attrcheck:" + e.attr):
                has = st2.heap.sel("$has:" + e.attr, o)
                bad = st2.copy()
                bad.assume(z3.Not(has))
                exc = self.new_exception(bad, "AttributeError")
                yield bad, None, exc
                st2.assume(has)
            s = field_sort(e.attr)
            v = st2.heap.sel(e.attr, o)
            if s == AVI:
                v = smt.box(v)
            elif s == AVB:
                v = smt.b2v(v)
            yield st2, v, None

    def ev_Tuple(self, e, st):
        for st2, vs, x in self.ev_list(e.elts, st):
            if x is not None:
                yield st2, None, x
            else:
                yield st2, self.new_tuple(st2, vs), None

    def ev_List(self, e, st):
        for st2, vs, x in self.ev_list(e.elts, st):
            if x is not None:
                yield st2, None, x
            else:
                yield st2, self.new_list(st2, vs), None

    def ev_Dict(self, e, st):
        from .symexec import Undecided
        if any(k is None for k in e.keys):
            raise Undecided("dict unpacking")
        for st2, ks, x in self.ev_list(list(e.keys), st):
            if x is not None:
                yield st2, None, x
                continue
            for st3, vs, x3 in self.ev_list(list(e.values), st2):
                if x3 is not None:
                    yield st3, None, x3
                    continue
                d = self.alloc(st3, "dict")
                st3.heap.store("$dhas", d, z3.K(V, z3.BoolVal(False)))
                st3.heap.store("$olen", d, z3.IntVal(0))
                for k, v in zip(ks, vs):
                    self.dict_set(st3, d, k, v, assume_absent=True)
                yield st3, d, None

    def ev_JoinedStr(self, e, st):
        parts = [v.value for v in e.values if isinstance(v, ast.FormattedValue)]
        for st2, vs, x in self.ev_list(parts, st):
            if x is not None:
                yield st2, None, x
            else:
                f = opaque_fn("fstr!%d" % len(vs), len(vs)) if vs else None
                yield st2, (f(*vs) if vs else smt.const("str:f")), None

    def ev_Lambda(self, e, st):
        yield st, smt.const("lambda:%s:%d:%d" % (self.qual, e.lineno, e.col_offset)), None

    def ev_UnaryOp(self, e, st):
        for st2, v, x in self.ev(e.operand, st):
            if x is not None:
                yield st2, None, x
            elif isinstance(e.op, ast.Not):
                yield st2, smt.b2v(z3.Not(self.eng.truthy(v, st2.heap))), None
            elif isinstance(e.op, ast.USub):
                yield st2, smt.box(-as_int(v)), None
            else:
                from .symexec import Undecided
                raise Undecided("unary op")

    def ev_BoolOp(self, e, st):
        is_and = isinstance(e.op, ast.And)

        def go(vals, st):
            for st2, v, x in self.ev(vals[0], st):
                if x is not None:
                    yield st2, None, x
                    continue
                if len(vals) == 1:
                    yield st2, v, None
                    continue
                c = z3.simplify(self.eng.truthy(v, st2.heap))
                cont = c if is_and else z3.Not(c)      # condition to evaluate the rest
                cont = z3.simplify(cont)
                if not z3.is_true(cont):
                    s_short = st2.copy()
                    s_short.assume(z3.Not(cont))
                    yield s_short, v, None
                if not z3.is_false(cont):
                    st2.assume(cont)
                    yield from go(vals[1:], st2)
        yield from go(e.values, st)

    def ev_IfExp(self, e, st):
        for st2, v, x in self.ev(e.test, st):
            if x is not None:
                yield st2, None, x
                continue
            c = z3.simplify(self.eng.truthy(v, st2.heap))
            if not z3.is_false(c):
                a = st2.copy()
                a.assume(c)
                yield from self.ev(e.body, a)
            if not z3.is_true(c):
                st2.assume(z3.Not(c))
                yield from self.ev(e.orelse, st2)

    def py_eq(self, a, b, ta=None, tb=None):
        ct = self.eng.ct
        if ta == "int" or tb == "int" or smt.is_boxed(a) or smt.is_boxed(b):
            # comparing with an int: equal iff the other is an int-like with same payload
            # (float/Decimal equal to an int are not modelled: assumption "ints compared with ints")
            if ta == "int" and tb == "int":
                return as_int(a) == as_int(b)
            other, ot = (b, tb) if (ta == "int" or smt.is_boxed(a)) else (a, ta)
            me = a if other is b else b
            isint = z3.Or(V.is_ival(other), V.is_bval(other))
            return z3.And(isint, smt.int_of(other) == as_int(me))
        # classes, None and markers compare by identity
        for x in (a, b):
            for n, c in smt._consts.items():
                if c.eq(x) and (n.startswith("cls:") or n in ("_none", "NotImplemented")):
                    return a == b
            if x.eq(NONE):
                return a == b
        return z3.Or(a == b, PY_EQ(a, b))

    def ev_Compare(self, e, st):
        from .symexec import Undecided
        if len(e.ops) != 1:
            raise Undecided("chained comparison")
        op = e.ops[0]
        for st2, vs, x in self.ev_list([e.left, e.comparators[0]], st):
            if x is not None:
                yield st2, None, x
                continue
            a, b = vs
            ta, tb = self.static_type(e.left, st2), self.static_type(e.comparators[0], st2)
            if isinstance(op, ast.Is):
                r = a == b
            elif isinstance(op, ast.IsNot):
                r = a != b
            elif isinstance(op, ast.Eq):
                r = self.py_eq(a, b, ta, tb)
            elif isinstance(op, ast.NotEq):
                r = z3.Not(self.py_eq(a, b, ta, tb))
            elif isinstance(op, (ast.Lt, ast.LtE, ast.Gt, ast.GtE)):
                if ta == "int" and tb == "int" or ((ta == "int" or tb == "int") and self.contract.labels.get("intcmp")):
                    ia, ib = as_int(a), as_int(b)
                    r = {ast.Lt: ia < ib, ast.LtE: ia <= ib, ast.Gt: ia > ib, ast.GtE: ia >= ib}[type(op)]
                elif (ta == "int" or smt.is_boxed(a)) or (tb == "int" or smt.is_boxed(b)):
                    # one side an int, the other of unknown static type: assume numeric (listed assumption)
                    ia, ib = as_int(a), as_int(b)
                    r = {ast.Lt: ia < ib, ast.LtE: ia <= ib, ast.Gt: ia > ib, ast.GtE: ia >= ib}[type(op)]
                else:
                    # rich comparison on opaque values: uninterpreted order (contracts axiomatise it)
                    if isinstance(op, ast.Lt):
                        r = PY_LT(a, b)
                    elif isinstance(op, ast.Gt):
                        r = PY_LT(b, a)
                    else:
                        raise Undecided("<= on opaque values")
            elif isinstance(op, (ast.In, ast.NotIn)):
                if tb == "set":
                    r = z3.Select(st2.heap.sel("$smem", b), a)
                elif tb in ("dict", "OrderedDict"):
                    r = z3.Select(st2.heap.sel("$dhas", b), a)
                elif tb == "list":
                    i = z3.Const(fresh_name("i!in"), z3.IntSort())
                    r = z3.Exists([i], z3.And(0 <= i, i < st2.heap.sel("$llen", b),
                                              self.py_eq(z3.Select(st2.heap.sel("$litem", b), i), a)))
                elif tb == "str":
                    r = STR_CONTAINS(b, a)
                elif tb == "tuple" and isinstance(e.comparators[0], ast.Tuple):
                    alts = []
                    for i, el in enumerate(e.comparators[0].elts):
                        if isinstance(el, ast.Name) and el.id not in st2.locals and self.eng.ct.known(el.id):
                            alts.append(a == self.eng.ct.cls(el.id))        # classes compare by identity
                        else:
                            alts.append(self.py_eq(a, smt.titem(b, z3.IntVal(i))))
                    r = z3.Or(*alts)
                else:
                    raise Undecided("`in` on %s (static type %s) line %d" % (ast.unparse(e.comparators[0]), tb, e.lineno))
                if isinstance(op, ast.NotIn):
                    r = z3.Not(r)
            else:
                raise Undecided("comparison op")
            yield st2, smt.b2v(r), None

    def ev_BinOp(self, e, st):
        from .symexec import Undecided
        for st2, vs, x in self.ev_list([e.left, e.right], st):
            if x is not None:
                yield st2, None, x
                continue
            a, b = vs
            ta, tb = self.static_type(e.left, st2), self.static_type(e.right, st2)
            if isinstance(e.op, ast.Mod) and (ta == "str" or isinstance(e.left, ast.Constant) and isinstance(e.left.value, str)):
                # string formatting: opaque total function of its operands (totality: see C18 checks)
                if self.contract.labels.get("format_user_repr") and self.format_calls_user_repr(e, st2):
                    # opt-in (label format_user_repr): %r / %s of a value whose type is not a built-in scalar runs user
                    # __repr__/__str__ code, which may raise any Exception
                    xs = st2.copy()
                    exc = fresh_v("exc_user_repr")
                    xs.assume(smt.subclass(smt.typeof(exc), self.eng.ct.cls("Exception")))
                    xs.assume(xs.heap.sel("$alloc", exc))
                    xs.trace.append("L%d: a user __repr__/__str__ called by %% formatting raises" % e.lineno)
                    yield xs, None, exc
                if (not isinstance(e.right, ast.Tuple) and tb not in ("str", "int", "bool", "NoneType", "dict", "float", "list", "set")
                        and not self.contract.labels.get("fmt_operand_not_tuple")):
                    # `fmt % x` with a single operand of unknown type: if x happens to be a tuple, it is taken as the argument list and
                    # an arity mismatch raises TypeError ("not all arguments converted" / "not enough arguments")
                    xt = st2.copy()
                    xt.assume(smt.typeof(b) == self.eng.ct.cls("tuple"))
                    if self.feasible_quick(xt):
                        xt.trace.append("L%d: the single %% operand is a tuple of the wrong length" % e.lineno)
                        yield xt, None, self.new_exception(xt, "TypeError")
                yield st2, opaque_fn("fmt", 2)(a, b), None
                continue
            if ta == "str" or tb == "str":
                yield st2, opaque_fn("strcat", 2)(a, b), None
                continue
            if isinstance(e.op, (ast.Add, ast.Sub, ast.Mult)):
                if (ta == "tuple" or tb == "tuple") and isinstance(e.op, ast.Add):
                    # tuple concatenation
                    t = fresh_v("tcat")
                    st2.assume(smt.typeof(t) == self.eng.ct.cls("tuple"))
                    st2.assume(smt.tlen(t) == smt.tlen(a) + smt.tlen(b))
                    i = z3.Const(fresh_name("i!tc"), z3.IntSort())
                    st2.assume(smt.forall([i], z3.Implies(z3.And(0 <= i, i < smt.tlen(a)), smt.titem(t, i) == smt.titem(a, i)),
                                         patterns=[smt.titem(t, i)]))
                    j = z3.Const(fresh_name("j!tc"), z3.IntSort())
                    st2.assume(smt.forall([j], z3.Implies(z3.And(0 <= j, j < smt.tlen(b)), smt.titem(t, smt.tlen(a) + j) == smt.titem(b, j)),
                                         patterns=[smt.titem(b, j)]))
                    st2.assume(st2.heap.sel("$alloc", t))
                    yield st2, t, None
                    continue
                if (ta == "list" or tb == "list") and isinstance(e.op, ast.Add):
                    o = self.alloc(st2, "list")
                    la, lb = st2.heap.sel("$llen", a), st2.heap.sel("$llen", b)
                    st2.heap.store("$llen", o, la + lb)
                    arr = z3.Const(fresh_name("lcat"), z3.ArraySort(z3.IntSort(), V))
                    i = z3.Const(fresh_name("i!lc"), z3.IntSort())
                    st2.assume(smt.forall([i], z3.Implies(z3.And(0 <= i, i < la), z3.Select(arr, i) == z3.Select(st2.heap.sel("$litem", a), i))))
                    st2.assume(smt.forall([i], z3.Implies(z3.And(0 <= i, i < lb), z3.Select(arr, la + i) == z3.Select(st2.heap.sel("$litem", b), i))))
                    st2.heap.store("$litem", o, arr)
                    yield st2, o, None
                    continue
                # numbers: mathematical integers (floats from time.time()/utime treated as numbers)
                ia, ib = as_int(a), as_int(b)
                r = ia + ib if isinstance(e.op, ast.Add) else ia - ib if isinstance(e.op, ast.Sub) else ia * ib
                yield st2, smt.box(r), None
                continue
            raise Undecided("binary operator %s line %d" % (type(e.op).__name__, e.lineno))

    def ev_Subscript(self, e, st):
        from .symexec import Undecided
        for st2, o, x in self.ev(e.value, st):
            if x is not None:
                yield st2, None, x
                continue
            t = self.static_type(e.value, st2)
            if isinstance(e.slice, ast.Slice):
                sl = e.slice
                if t == "list" and sl.lower is None and sl.upper is None and sl.step is None:
                    n = self.alloc(st2, "list")
                    st2.heap.store("$llen", n, st2.heap.sel("$llen", o))
                    st2.heap.store("$litem", n, st2.heap.sel("$litem", o))
                    yield st2, n, None
                    continue
                if t in ("list", "tuple") and sl.step is None and sl.upper is None and isinstance(sl.lower, ast.Constant):
                    k = sl.lower.value
                    if t == "list":
                        n = self.alloc(st2, "list")
                        ln = st2.heap.sel("$llen", o)
                        st2.heap.store("$llen", n, z3.If(ln >= k, ln - k, 0))
                        arr = z3.Const(fresh_name("slice"), z3.ArraySort(z3.IntSort(), V))
                        i = z3.Const(fresh_name("i!sl"), z3.IntSort())
                        st2.assume(smt.forall([i], z3.Implies(i >= 0, z3.Select(arr, i) == z3.Select(st2.heap.sel("$litem", o), i + k))))
                        st2.heap.store("$litem", n, arr)
                        yield st2, n, None
                        continue
                raise Undecided("slice %s" % ast.unparse(e))
            for st3, k, x3 in self.ev(e.slice, st2):
                if x3 is not None:
                    yield st3, None, x3
                    continue
                if t == "list" or t == "tuple":
                    n = st3.heap.sel("$llen", o) if t == "list" else smt.tlen(o)
                    i = as_int(k)
                    neg = isinstance(e.slice, ast.UnaryOp) and isinstance(e.slice.op, ast.USub)
                    idx = (n + i) if neg else i
                    inb = z3.And(0 <= idx, idx < n)
                    bad = st3.copy()
                    bad.assume(z3.Not(inb), "L%d: index out of range" % e.lineno)
                    if self.feasible_quick(bad):
                        yield bad, None, self.new_exception(bad, "IndexError")
                    st3.assume(inb)
                    v = z3.Select(st3.heap.sel("$litem", o), idx) if t == "list" else smt.titem(o, idx)
                    yield st3, v, None
                elif t in ("dict", "OrderedDict"):
                    has = z3.Select(st3.heap.sel("$dhas", o), k)
                    bad = st3.copy()
                    bad.assume(z3.Not(has), "L%d: key missing" % e.lineno)
                    yield bad, None, self.new_exception(bad, "KeyError")
                    st3.assume(has)
                    yield st3, z3.Select(st3.heap.sel("$dget", o), k), None
                else:
                    yield from self.call_by_hint(ast.unparse(e.value) + ".__getitem__", [o, k], {}, st3, e)

    def feasible_quick(self, st):
        if self.dry:
            return True
        s = z3.Solver()
        s.set("timeout", 200)
        s.add(*self.eng.axioms())
        s.add(*st.pc)
        return s.check() != z3.unsat

    # ---- comprehensions ---------------------------------------------------
    def ev_ListComp(self, e, st):
        from .symexec import Undecided
        if len(e.generators) != 1 or e.generators[0].is_async:
            raise Undecided("comprehension shape")
        g = e.generators[0]
        k = self.loop_ordinal(e)
        acc = "_c%d" % k
        app = ast.Expr(value=ast.Call(func=ast.Attribute(value=ast.Name(id=acc, ctx=ast.Load()), attr="append", ctx=ast.Load()),
                                      args=[e.elt], keywords=[]))
        body = [app]
        for cond in reversed(g.ifs):
            body = [ast.If(test=cond, body=body, orelse=[])]
        loop = ast.For(target=g.target, iter=g.iter, body=body, orelse=[])
        ast.copy_location(loop, e)
        ast.fix_missing_locations(loop)
        self.synth[id(loop)] = k
        self.synth_keep.append(loop)
        st.locals[acc] = self.new_list(st)
        st.ltypes[acc] = "list"
        for st2, out in self.st_For(loop, st):
            if out == ("normal",):
                yield st2, st2.locals[acc], None
            elif out[0] == "raise":
                yield st2, None, out[1]
            else:
                raise Undecided("comprehension outcome")

    def ev_DictComp(self, e, st):
        from .symexec import Undecided
        if len(e.generators) != 1 or e.generators[0].is_async or e.generators[0].ifs:
            raise Undecided("dict comprehension shape")
        g = e.generators[0]
        k = self.loop_ordinal(e)
        acc = "_c%d" % k
        store = ast.Assign(targets=[ast.Subscript(value=ast.Name(id=acc, ctx=ast.Load()), slice=e.key, ctx=ast.Store())],
                           value=e.value)
        loop = ast.For(target=g.target, iter=g.iter, body=[store], orelse=[])
        ast.copy_location(loop, e)
        ast.fix_missing_locations(loop)
        self.synth[id(loop)] = k
        self.synth_keep.append(loop)
        d = self.alloc(st, "dict")
        st.heap.store("$dhas", d, z3.K(V, z3.BoolVal(False)))
        st.heap.store("$olen", d, z3.IntVal(0))
        st.locals[acc] = d
        st.ltypes[acc] = "dict"
        for st2, out in self.st_For(loop, st):
            if out == ("normal",):
                yield st2, st2.locals[acc], None
            elif out[0] == "raise":
                yield st2, None, out[1]
            else:
                raise Undecided("comprehension outcome")

    # ---- yield (only in @asynq generator bodies under contract) -----------
    def ev_Yield(self, e, st):
        from .symexec import Undecided
        if not self.contract.generator:
            raise Undecided("yield outside a generator contract")
        if e.value is None:
            args = [NONE]
            sts = [(st, NONE, None)]
        else:
            sts = self.ev(e.value, st)
        for st2, v, x in sts:
            if x is not None:
                yield st2, None, x
                continue
            yield from self.apply_contract(self.get_contract(self.contract.generator), [v], {}, st2, e, self.contract.generator)

    def ev_Await(self, e, st):
        for st2, v, x in self.ev(e.value, st):
            if x is not None:
                yield st2, None, x
                continue
            yield from self.apply_contract(self.get_contract("env.await"), [v], {}, st2, e, "await")

    # ------------------------------------------------------------------
    # dict model (unordered view + ordered view kept consistent for the few uses)
    def dict_set(self, st, d, k, v, assume_absent=False):
        """d[k] = v.  Forks on key presence (no ite inside the arrays); returns the list of states."""
        self.mark_escapes(st, [k, v])
        has = st.heap.sel("$dhas", d)
        present = z3.simplify(z3.Select(has, k))
        outs = []
        if not z3.is_true(present) :
            a = st if (z3.is_false(present) or assume_absent) else st.copy()
            if not assume_absent:
                a.assume(z3.Not(z3.Select(has, k)))
            n = a.heap.sel("$olen", d)
            a.heap.store("$okey", d, z3.Store(a.heap.sel("$okey", d), n, k))
            a.heap.store("$oval", d, z3.Store(a.heap.sel("$oval", d), n, v))
            a.heap.store("$olen", d, n + 1)
            a.heap.store("$dget", d, z3.Store(a.heap.sel("$dget", d), k, v))
            a.heap.store("$dhas", d, z3.Store(has, k, z3.BoolVal(True)))
            outs.append(a)
            if assume_absent or z3.is_false(present):
                return outs
        b = st
        b.assume(z3.Select(has, k))
        pos = fresh_int("setpos")
        n = b.heap.sel("$olen", d)
        b.assume(z3.And(0 <= pos, pos < n, z3.Select(b.heap.sel("$okey", d), pos) == k))
        b.heap.store("$oval", d, z3.Store(b.heap.sel("$oval", d), pos, v))
        b.heap.store("$dget", d, z3.Store(b.heap.sel("$dget", d), k, v))
        outs.append(b)
        return outs

    def dict_del(self, st, d, k):
        """del d[k] -> list of (state, exc)"""
        has = st.heap.sel("$dhas", d)
        present = z3.Select(has, k)
        out = []
        bad = st.copy()
        bad.assume(z3.Not(present), "del: key missing")
        out.append((bad, self.new_exception(bad, "KeyError")))
        st.assume(present)
        n = st.heap.sel("$olen", d)
        okey = st.heap.sel("$okey", d)
        oval = st.heap.sel("$oval", d)
        pos = fresh_int("delpos")
        st.assume(z3.And(0 <= pos, pos < n, z3.Select(okey, pos) == k))
        nk = z3.Const(fresh_name("okey"), okey.sort())
        nv = z3.Const(fresh_name("oval"), oval.sort())
        i = z3.Const(fresh_name("i!dd"), z3.IntSort())
        st.assume(smt.forall([i], z3.And(z3.Select(nk, i) == z3.If(i < pos, z3.Select(okey, i), z3.Select(okey, i + 1)),
                                        z3.Select(nv, i) == z3.If(i < pos, z3.Select(oval, i), z3.Select(oval, i + 1)))))
        st.heap.store("$dhas", d, z3.Store(has, k, z3.BoolVal(False)))
        st.heap.store("$olen", d, n - 1)
        st.heap.store("$okey", d, nk)
        st.heap.store("$oval", d, nv)
        st.ghost["$delpos"] = pos
        out.append((st, None))
        return out


DICT_POS = z3.Function("dict_pos", z3.ArraySort(z3.IntSort(), V), V, z3.IntSort())
STR_CONTAINS = z3.Function("str_contains", V, V, z3.BoolSort())
