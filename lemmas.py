"""Property-level lemmas: first-order consequences of the contracts (or of the definitional axioms of
spec functions), discharged by the same back end.  Each returns one obligation record."""
import time
import z3
from pyvc import smt
from pyvc.smt import V, NONE_MARK
from pyvc.state import Heap, AIV, AVV, fresh_v
from pyvc.spec import SpecEnv


def _rec(name, ok, secs, reason=""):
    return {"name": "lemma#" + name, "kind": "lemma", "label": name, "status": "discharged" if ok is True else ("failed" if ok is False else "unknown"),
            "backend": "z3", "seconds": round(secs, 3), "reason": reason, "lineno": None, "trace": [], "model": {}, "model_text": ""}


def _valid(hyps, goal, timeout=10):
    s = z3.Solver()
    s.set("timeout", int(timeout * 1000))
    s.add(*hyps)
    s.add(z3.Not(goal))
    r = s.check()
    return True if r == z3.unsat else (False if r == z3.sat else None), (str(s.model())[:500] if r == z3.sat else "")


def cnt_monotone(eng, timeout):
    """The lemma assumed with cntu (scheduler_c): 0<=k<m => CNT(k) + [uncomputed r[k]] <= CNT(m), by induction on m
    from the two defining equations (base m=k+1, step m -> m+1)."""
    t0 = time.time()
    CNT = z3.Function("cnt_uncomputed", AIV, AVV, z3.IntSort(), z3.IntSort())
    r = z3.Const("r", AIV)
    a = z3.Const("a", AVV)
    k, m = z3.Ints("k m")
    unc = lambda i: z3.If(z3.Select(a, z3.Select(r, i)) == NONE_MARK, 1, 0)
    defn = lambda i: CNT(r, a, i + 1) == CNT(r, a, i) + unc(i)      # instance of the defining equation (i >= 0)
    base_ok, m1 = _valid([k >= 0, defn(k)], CNT(r, a, k) + unc(k) <= CNT(r, a, k + 1), timeout)
    step_ok, m2 = _valid([k >= 0, m > k, defn(m), CNT(r, a, k) + unc(k) <= CNT(r, a, m)],
                         CNT(r, a, k) + unc(k) <= CNT(r, a, m + 1), timeout)
    ok = True if (base_ok and step_ok) else (False if (base_ok is False or step_ok is False) else None)
    return _rec("cnt-monotone", ok, time.time() - t0, (m1 + m2)[:300])


def lifo_save_restore(eng, timeout):
    """C07: with the verified contracts of _AsyncScopedValueOverrideContext.resume/pause, a properly nested
    (LIFO) activation restores the cell and reads inside see the innermost override.  Induction over the nesting:
    one step = resume(c); [inner balanced activity that restores the cell and leaves c's saved value alone]; pause(c)."""
    t0 = time.time()
    reg = eng.reg
    cres = reg.contracts["scoped_value._AsyncScopedValueOverrideContext.resume"]
    cpau = reg.contracts["scoped_value._AsyncScopedValueOverrideContext.pause"]
    c = z3.Const("c", V)
    h0, h1, h2, h3 = Heap(), Heap(), Heap(), Heap()
    names = {"self": c}
    hyps = list(eng.axioms())
    e01 = SpecEnv(eng, names, h1, h0)
    for p in cres.requires:
        hyps.append(SpecEnv(eng, names, h0, h0).formula(p))
    for p in cres.post:
        hyps.append(e01.formula(p))
    target0 = h0.sel("_target", c)
    # resume/pause do not modify _target/_value of the context (frame: fields not in `modifies`)
    for f in ("_target",):
        hyps.append(h1.get(f) == h0.get(f))
        hyps.append(h2.get(f) == h1.get(f))
        hyps.append(h3.get(f) == h2.get(f))
    # induction hypothesis for the inner (balanced) activity h1 -> h2
    hyps.append(h2.sel("_value", target0) == h1.sel("_value", target0))
    hyps.append(h2.sel("_old_value", c) == h1.sel("_old_value", c))
    e23 = SpecEnv(eng, names, h3, h2)
    for p in cpau.post:
        hyps.append(e23.formula(p))
    hyps.append(c != target0)
    inner_read = h1.sel("_value", target0) == h0.sel("_value", c)
    restored = h3.sel("_value", target0) == h0.sel("_value", target0)
    ok1, m1 = _valid(hyps, inner_read, timeout)
    ok2, m2 = _valid(hyps, restored, timeout)
    # vacuity: hypotheses satisfiable
    s = z3.Solver()
    s.set("timeout", 3000)
    s.add(*hyps)
    vac = s.check() == z3.unsat
    ok = True if (ok1 and ok2 and not vac) else (False if (ok1 is False or ok2 is False or vac) else None)
    return _rec("lifo-save-restore", ok, time.time() - t0, ("vacuous hypotheses " if vac else "") + (m1 + m2)[:300])


LEMMAS = {"cnt-monotone": cnt_monotone, "lifo-save-restore": lifo_save_restore}


def run(lem, eng, timeout):
    try:
        return LEMMAS[lem](eng, timeout)
    except Exception as e:
        import traceback
        return _rec(lem, None, 0.0, "lemma error: " + traceback.format_exc()[-400:])
