#!/bin/sh
cd /verif
M="python3 tools/mutcheck.py scheduler.py"
G='discharged in|failed|unknown|UNDEC'
echo "== 1 reversed comparison"; $M 'best_priority < priority' 'best_priority > priority' scheduler.TaskScheduler._select_batch_to_flush 2>/dev/null| grep -E "$G" | head -4
echo "== 2 no is_flushed test"; $M 'if not batch.items or batch.is_flushed():' 'if not batch.items:' scheduler.TaskScheduler._select_batch_to_flush 2>/dev/null| grep -E "$G" | head -4
echo "== 3 <= (tie: last wins; still a max: must verify)"; $M 'best_priority < priority' 'not (priority < best_priority)' scheduler.TaskScheduler._select_batch_to_flush 2>/dev/null| grep -E "$G" | head -4
echo "== 4 no remove before flush"; $M '        self._batches.remove(batch)
        self._flush_batch(batch)' '        self._flush_batch(batch)' scheduler.TaskScheduler._continue_with_batch 2>/dev/null| grep -E "$G" | head -4
echo "== 5 no finally"; $M '        finally:
            self.on_after_batch_flush(batch)' '        except ZeroDivisionError:
            pass
        self.on_after_batch_flush(batch)' scheduler.TaskScheduler._flush_batch 2>/dev/null| grep -E "$G" | head -4
echo "== 6 schedule flushed batch"; $M '        if batch.is_flushed():
            if _debug_options.DUMP_SCHEDULE_BATCH:
                debug.write(
                    "@async: can'"'"'t schedule flushed batch %s" % debug.str(batch)
                )
            return False' '        pass' scheduler.TaskScheduler._schedule_batch 2>/dev/null| grep -E "$G" | head -4
echo "== 7 select: forgets to drop ineligible"; $M '        if batches_to_remove:
            for batch in batches_to_remove:
                self._batches.remove(batch)' '        pass' scheduler.TaskScheduler._select_batch_to_flush 2>/dev/null| grep -E "$G" | head -4
