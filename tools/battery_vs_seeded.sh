#!/bin/sh
# dev helper: run the scenario battery of property $2 (default: same id) on a scratch copy with seeded change $1 applied
id=$1; pid=${2:-$1}
rm -rf /tmp/sc_test && mkdir -p /tmp/sc_test && git -C /repo archive HEAD asynq | tar -x -C /tmp/sc_test
cd /tmp/sc_test && patch -s -p1 < /verif/seeded/$id/patch.diff || exit 2
PYTHONPATH=/tmp/sc_test /venv/bin/python /verif/replay/battery.py $pid 2>/dev/null | tail -1 | python3 -c "
import sys, json
o=json.loads(sys.stdin.read()); v=o['violations']
print('$id/$pid', 'CAUGHT' if v else 'missed', [x['name'].split(':')[-1]+': '+x['what'][:110] for x in v][:2])"
cd /; rm -rf /tmp/sc_test
