"""Random task programs against a sequential reference (bounded stand-in for C01-C08).

A program is a tree of task descriptions; every task performs a few yields of arbitrarily nested tuples/lists/dicts whose
leaves are child tasks, items of several batch kinds (succeeding or failing), constant / error / lazily computed futures,
None, a repeated future or an object that is not a future; tasks may catch what a yield raises, raise themselves, hold an
AsyncContext and a scoped-value override around their yields and (in the second family) call another task synchronously.
The reference evaluates the same description sequentially and depth first.  While the real program runs, monitors record
starts, flushes, context events and the active task; the oracles below are the statements of C01-C08 over these records.

Bound: SEEDS programs per family (fixed seeds, so every run explores the same programs), depth <= 3, <= 3 yields per task,
structures nested <= 2 with <= 3 members."""
import contextlib
import io
import random

from scenarios import scenario, fail

KINDS = ("ka", "kb", "kc")


class RErr(Exception):
    def __init__(self, tag):
        Exception.__init__(self, tag)
        self.tag = tag


class Gen(object):
    def __init__(self, rnd, sync, batch_free=False, dag=False):
        self.rnd = rnd
        self.sync = sync
        self.batch_free = batch_free      # C15: trees of tasks, constant futures, None, nested structures, raises, try/except
        self.dag = dag                    # third family: tasks awaited by several parents (no contexts)
        self.pool = []                    # descriptions of the shared tasks
        self.n = 0

    def nid(self):
        self.n += 1
        return self.n

    def task(self, depth):
        r = self.rnd
        nsteps = r.choice((1, 1, 2, 2, 3)) if depth < 2 else r.choice((0, 1, 1, 2))
        d = {"id": self.nid(), "steps": [self.struct(depth, 0) for _ in range(nsteps)],
             "catch": r.random() < 0.4, "raise_at": None, "ctx": r.random() < 0.4 and not self.batch_free and not self.dag,
             "sync_at": None, "sync_child": None, "reyield": None}
        if nsteps >= 2 and r.random() < 0.25 and not self.batch_free:
            # a later step yields the very same container object an earlier step yielded
            j = r.randrange(1, nsteps)
            i = r.randrange(0, j)
            if d["steps"][i][0] in ("tuple", "list", "dict"):
                d["reyield"] = (j, i)
        if nsteps and r.random() < (0.3 if self.batch_free else 0.15):
            d["raise_at"] = r.randrange(nsteps)
        if self.sync and depth < 2 and nsteps and r.random() < 0.3:
            d["sync_at"] = r.randrange(nsteps)
            d["sync_child"] = self.task(depth + 1)
        return d

    def struct(self, depth, nest):
        r = self.rnd
        if nest < 2 and r.random() < (0.6 if nest == 0 else 0.25):
            kind = r.choice(("tuple", "list", "dict"))
            members = [self.struct(depth, nest + 1) for _ in range(r.choice((0, 1, 2, 2, 3, 3, 4)))]
            if members and r.random() < 0.15 and not self.batch_free:
                # the same future listed twice in one structure
                leafs = [m for m in members if m[0] == "leaf"]
                if leafs:
                    members.append(("dup", r.choice(leafs)[1]["lid"]))
            return (kind, members)
        return ("leaf", self.leaf(depth))

    def leaf(self, depth):
        r = self.rnd
        x = r.random()
        lid = self.nid()
        if self.batch_free:
            if x < 0.6 and depth < 3:
                return {"lid": lid, "k": "task", "task": self.task(depth + 1)}
            if x < 0.85:
                return {"lid": lid, "k": "const", "v": lid}
            return {"lid": lid, "k": "none"}
        if self.dag and r.random() < 0.22:
            # a task that other tasks of the program await as well (created by whoever reaches it first)
            # (only completely generated pool entries can be referenced, so the program stays acyclic)
            if self.pool and (len(self.pool) >= 4 or r.random() < 0.6):
                return {"lid": lid, "k": "shared", "sid": r.randrange(len(self.pool))}
            if depth < 3 and len(self.pool) < 6:
                td = self.task(3 if depth >= 2 else depth + 1)
                self.pool.append(td)
                return {"lid": lid, "k": "shared", "sid": len(self.pool) - 1}
        if x < (0.42 if depth < 2 else 0.25) and depth < 3:
            return {"lid": lid, "k": "task", "task": self.task(depth + 1)}
        if x < 0.72:
            return {"lid": lid, "k": "item", "kind": r.choice(KINDS), "v": lid, "fail": r.random() < 0.12}
        if x < 0.79:
            return {"lid": lid, "k": "const", "v": lid}
        if x < 0.86:
            return {"lid": lid, "k": "none"}
        if x < 0.90:
            return {"lid": lid, "k": "errfut"}
        if x < 0.96:
            if self.sync and depth < 2 and r.random() < 0.5:
                # a lazily computed future whose provider calls asynq code synchronously (re-entry with no task active)
                return {"lid": lid, "k": "lazysync", "task": self.task(depth + 1)}
            return {"lid": lid, "k": "lazy", "v": lid, "fail": r.random() < 0.3}
        return {"lid": lid, "k": "nonfuture", "v": lid}


# ---- sequential reference ------------------------------------------------------------------------------------------

_POOL = {"descs": [], "ref": {}}


def ref_task(d):
    """-> ('val', (id, records)) | ('exc', tag)"""
    recs = []
    memos = {}
    for k, st in enumerate(d["steps"]):
        if d["sync_at"] == k:
            o = ref_task(d["sync_child"])
            recs.append(("sync", o))
        memo = {}
        errs = []
        if d.get("reyield") and d["reyield"][0] == k:
            # the same container object as in an earlier step: its futures are the same, already computed, futures
            st, memo = d["steps"][d["reyield"][1]], memos[d["reyield"][1]]
        memos[k] = memo
        v = ref_struct(st, memo, errs)
        if errs:
            if d["catch"]:
                recs.append(("caught", errs[0]))
                continue
            return ("exc", errs[0])
        recs.append(v)
        if d["raise_at"] == k:
            return ("exc", "own%d" % d["id"])
    return ("val", (d["id"], recs))


def ref_leaf(l, memo, errs):
    if l["lid"] in memo:
        o = memo[l["lid"]]
    else:
        k = l["k"]
        if k == "task":
            o = ref_task(l["task"])
        elif k == "item":
            o = ("exc", "item%d" % l["lid"]) if l["fail"] else ("val", l["v"])
        elif k == "const":
            o = ("val", l["v"])
        elif k == "none":
            o = ("val", None)
        elif k == "errfut":
            o = ("exc", "errfut%d" % l["lid"])
        elif k == "lazy":
            o = ("exc", "lazy%d" % l["lid"]) if l["fail"] else ("val", l["v"])
        elif k == "lazysync":
            o = ref_task(l["task"])
        elif k == "shared":
            if l["sid"] not in _POOL["ref"]:
                _POOL["ref"][l["sid"]] = ref_task(_POOL["descs"][l["sid"]])
            o = _POOL["ref"][l["sid"]]
        else:
            o = ("exc", "TypeError")
        memo[l["lid"]] = o
    if o[0] == "exc":
        errs.append(o[1])
        return None
    return o[1]


def ref_struct(st, memo, errs, leaves=None):
    if st[0] == "leaf":
        return ref_leaf(st[1], memo, errs)
    if st[0] == "dup":
        o = memo[st[1]]
        if o[0] == "exc":
            errs.append(o[1])
            return None
        return o[1]
    vals = [ref_struct(m, memo, errs) for m in st[1]]
    if st[0] == "tuple":
        return tuple(vals)
    if st[0] == "list":
        return list(vals)
    return {"m%d" % i: v for i, v in enumerate(vals)}


def task_leaves_in_order(st, out):
    """task leaves of a structure (any order)"""
    if st[0] == "leaf":
        if st[1]["k"] == "task":
            out.append(st[1]["task"]["id"])
    elif st[0] != "dup":
        for m in st[1]:
            task_leaves_in_order(m, out)
    return out


def ordered_groups(st, out):
    """for every tuple/list node: the task ids inside each member, member by member in written order (the statement of C03
    orders members of lists and tuples only; the values of a dict are scanned in the opposite direction)"""
    if st[0] in ("tuple", "list"):
        out.append([task_leaves_in_order(m, []) for m in st[1]])
    if st[0] in ("tuple", "list", "dict"):
        for m in st[1]:
            ordered_groups(m, out)
    return out


# ---- the real program ----------------------------------------------------------------------------------------------

class Run(object):
    def __init__(self, prog, pid):
        self.prog = prog
        self.pid = pid
        self.started = []          # task ids in the order their bodies first ran
        self.inst = {}             # task id -> AsyncTask
        self.tasks = []            # every AsyncTask yielded by the program
        self.parent = {}           # task id -> id of the task awaiting it (yield) or calling it (sync)
        self.ctx_of = {}           # task id -> context name, while entered
        self.ctxlog = []           # ('r'|'p', name)
        self.running = []          # ids of tasks whose body is executing (nested synchronous calls)
        self.awaiting_provider = []  # ids of tasks awaiting a lazily computed future whose provider is executing
        self.problems = []
        self.flushes = []
        self.yield_groups = []     # (parent id, [task ids in written order])

    def problem(self, prop, what, **kw):
        if prop == self.pid or (self.pid in ("C01", "C02") and prop in ("C01", "C02")):
            d = {"what": what, "oracle_of": prop}
            d.update(kw)
            self.problems.append(d)

    def active_contexts(self):
        act = []
        for e, n in self.ctxlog:
            if e == "r":
                act.append(n)
            elif n in act:
                act.remove(n)
        return act

    def chain(self, tid):
        out = []
        while tid is not None:
            out.append(tid)
            tid = self.parent.get(tid)
        return out

    def expected_active(self, tids):
        exp = set()
        for t in tids:
            for a in self.chain(t):
                if a in self.ctx_of:
                    exp.add(self.ctx_of[a])
        return exp


def build_and_run(prog, pid, yield_only):
    from asynq import asynq as A, batching, futures, scheduler, contexts, scoped_value
    run = Run(prog, pid)
    SV = scoped_value.AsyncScopedValue("default")
    batches = {}

    class RBatch(batching.BatchBase):
        def __init__(self, kind):
            batching.BatchBase.__init__(self)
            self.kind = kind
            self.nflush = 0

        def _try_switch_active_batch(self):
            if batches.get(self.kind) is self:
                batches[self.kind] = RBatch(self.kind)

        def _flush(self):
            self.nflush += 1
            for it in self.items:
                if it.fail:
                    it.set_error(it.err)
                else:
                    it.set_value(it.v)

        def _cancel(self):
            pass

    class RItem(batching.BatchItemBase):
        def __init__(self, kind, v, fail_, err):
            b = batches.get(kind)
            if b is None:
                b = batches[kind] = RBatch(kind)
            batching.BatchItemBase.__init__(self, b)
            self.v, self.fail, self.err = v, fail_, err

    class Ctx(contexts.AsyncContext):
        def __init__(self, name):
            self.name = name

        def resume(self):
            run.ctxlog.append(("r", self.name))

        def pause(self):
            run.ctxlog.append(("p", self.name))

    def tag(e):
        if isinstance(e, RErr):
            return e.tag
        return type(e).__name__

    def segment(d, me):
        """called whenever the body of task d runs a piece of its own code"""
        tid = d["id"]
        at = scheduler.get_active_task()
        if me is not None and at is not me:
            run.problem("C08", "get_active_task() inside a task's code is not that task", task=tid, got=repr(at)[:120])
        exp = run.expected_active(run.running)
        act = set(run.active_contexts())
        if act != exp:
            run.problem("C06", "the set of active AsyncContexts while a task's code runs is not {its own, those of the tasks awaiting it}",
                        task=tid, active=sorted(act), expected=sorted(exp))
        chain_ctx = [a for a in run.chain(tid) if a in run.ctx_of]
        want = ("ov%d" % chain_ctx[0]) if chain_ctx else "default"
        got = SV.get()
        if got != want:
            run.problem("C07", "a scoped value read inside a task is not the innermost enclosing override of the task or of the tasks awaiting it",
                        task=tid, read=got, expected=want)

    def snapshot():
        sch = scheduler.get_scheduler()
        return (sch, list(sch._tasks), sch.active_task)

    def undisturbed(snap, where, tid):
        """a nested synchronous computation has ended: the enclosing computation's scheduler state is as it was"""
        sch, tasks, active = snap
        now = scheduler.get_scheduler()
        if now is not sch or len(now._tasks) != len(tasks) or any(a is not b for a, b in zip(now._tasks, tasks)) or now.active_task is not active:
            run.problem("C08", "after a nested synchronous computation (called from %s) ended, the scheduler's task stack or active task "
                        "of the enclosing computation is not what it was" % where, task=tid, stack_before=len(tasks), stack_after=len(now._tasks),
                        active_before=repr(active)[:80], active_after=repr(now.active_task)[:80])

    shared_inst = {}

    def snapshot_of(y):
        if type(y) is list:
            return ("list", [(m, snapshot_of(m)) for m in y])
        if type(y) is tuple:
            return ("tuple", [(m, snapshot_of(m)) for m in y])
        if type(y) is dict:
            return ("dict", [(k, m, snapshot_of(m)) for k, m in y.items()])
        return None

    def unmodified(y, snap):
        if snap is None:
            return True
        if snap[0] in ("list", "tuple"):
            return len(y) == len(snap[1]) and all(a is m and unmodified(a, sn) for a, (m, sn) in zip(y, snap[1]))
        return list(y.keys()) == [k for k, _m, _s in snap[1]] and all(y[k] is m and unmodified(y[k], sn) for k, m, sn in snap[1])

    def realize(d, st, made):
        if st[0] == "leaf":
            l = st[1]
            k = l["k"]
            if k == "task":
                f = make(l["task"], d["id"])
                t = f.asynq()
                run.inst[l["task"]["id"]] = t
                run.tasks.append(t)
                o = t
            elif k == "item":
                o = RItem(l["kind"], l["v"], l["fail"], RErr("item%d" % l["lid"]))
            elif k == "const":
                o = futures.ConstFuture(l["v"])
            elif k == "none":
                o = None
            elif k == "errfut":
                o = futures.ErrorFuture(RErr("errfut%d" % l["lid"]))
            elif k == "lazy":
                if l["fail"]:
                    def provider(lid=l["lid"]):
                        raise RErr("lazy%d" % lid)
                else:
                    def provider(v=l["v"]):
                        return v
                o = futures.Future(provider)
            elif k == "shared":
                if l["sid"] not in shared_inst:
                    td = _POOL["descs"][l["sid"]]
                    shared_inst[l["sid"]] = make(td, None).asynq()
                    run.inst[td["id"]] = shared_inst[l["sid"]]
                    run.tasks.append(shared_inst[l["sid"]])
                o = shared_inst[l["sid"]]
            elif k == "lazysync":
                def provider(td=l["task"]):
                    # the awaiting task is suspended but its contexts are active: the provider is work it awaits.  Whether they
                    # should be paused for a flush performed inside the provider is not settled by C06 (its two sentences
                    # disagree in this corner), so the flush oracle accepts the contexts of the awaiting chain here.
                    run.awaiting_provider.append(d["id"])
                    snap = snapshot()
                    try:
                        return make(td, d["id"])()
                    finally:
                        run.awaiting_provider.pop()
                        undisturbed(snap, "a lazily computed future's provider", d["id"])
                o = futures.Future(provider)
            else:
                o = 1000 + l["v"]
            made[l["lid"]] = o
            return o
        if st[0] == "dup":
            return made[st[1]]
        vals = [realize(d, m, made) for m in st[1]]
        if st[0] == "tuple":
            return tuple(vals)
        if st[0] == "list":
            return vals
        return {"m%d" % i: v for i, v in enumerate(vals)}

    def make(d, parent):
        tid = d["id"]
        run.parent[tid] = parent

        @A()
        def body():
            me = run.inst.get(tid)
            if tid in run.started:
                run.problem("C03", "a task body started twice", task=tid)
            run.started.append(tid)
            run.running.append(tid)
            try:
                recs = []
                yielded = {}
                with contextlib.ExitStack() as stack:
                    if d["ctx"]:
                        run.ctx_of[tid] = "c%d" % tid
                        stack.callback(lambda: run.ctx_of.pop(tid, None))
                        stack.enter_context(Ctx("c%d" % tid))
                        stack.enter_context(SV.override("ov%d" % tid))
                    segment(d, me)
                    for k, st in enumerate(d["steps"]):
                        if d["sync_at"] == k:
                            f = make(d["sync_child"], tid)
                            snap = snapshot()
                            try:
                                o = ("val", f())
                            except Exception as e:
                                o = ("exc", tag(e))
                            undisturbed(snap, "a task body", tid)
                            recs.append(("sync", o))
                            segment(d, me)
                        made = {}
                        if d.get("reyield") and d["reyield"][0] == k:
                            y, made, snap = yielded[d["reyield"][1]]
                        else:
                            y = realize(d, st, made)
                            snap = snapshot_of(y)
                            run.yield_groups.extend((tid, g) for g in ordered_groups(st, []))
                        yielded[k] = (y, made, snap)
                        run.running.pop()
                        try:
                            try:
                                v = yield y
                            finally:
                                run.running.append(tid)
                        except Exception as e:
                            segment(d, me)
                            if not unmodified(y, snap):
                                run.problem("C01", "a container the task yielded was modified by the scheduler", task=tid, step=k)
                            if d["catch"]:
                                recs.append(("caught", tag(e)))
                                continue
                            raise
                        segment(d, me)
                        if not unmodified(y, snap):
                            run.problem("C01", "a container the task yielded was modified by the scheduler (the task still holds it)", task=tid, step=k)
                        if snap is not None and v is y and type(y) is not tuple:
                            run.problem("C01", "the structure sent back for a yielded list/dict is the yielded object itself, not a new structure", task=tid, step=k)
                        deps_pending = [x for x in made.values() if isinstance(x, futures.FutureBase) and not x.is_computed()]
                        if deps_pending:
                            run.problem("C03", "a task was resumed while a future it yielded is still uncomputed", task=tid)
                        recs.append(v)
                        if d["raise_at"] == k:
                            raise RErr("own%d" % tid)
                return (tid, recs)
            finally:
                run.running.pop()
        return body

    def before_flush(b):
        s = scheduler.get_scheduler()
        run.flushes.append(b)
        if yield_only:
            for t in run.tasks:
                if not t.is_computed() and not (t.iteration_index > 0 and t.is_blocked()):
                    run.problem("C04", "a batch is flushed while an uncompleted task of the computation has not started or is not waiting",
                                flush_no=len(run.flushes), kind=getattr(b, "kind", "?"), started=t.iteration_index > 0)
                    break
            best = max([x.get_priority() for x in list(s._batches) + [b] if not x.is_flushed() and not x.is_empty()] or [b.get_priority()])
            if b.get_priority() < best:
                run.problem("C05", "the flushed batch does not have the greatest priority among the pending batches",
                            flushed=repr(b.get_priority()), best=repr(best))
        if b.is_empty() or b.is_flushed():
            run.problem("C05", "an empty or already flushed batch is flushed", kind=getattr(b, "kind", "?"))
        if getattr(b, "nflush", 0) != 0:
            run.problem("C05", "a batch is flushed more than once", kind=getattr(b, "kind", "?"))
        exp = run.expected_active(run.running + run.awaiting_provider)
        act = set(run.active_contexts())
        if act != exp:
            run.problem("C06", "an AsyncContext of a suspended task is active while a batch is flushed", active=sorted(act), expected=sorted(exp))

    scheduler.reset()
    s = scheduler.get_scheduler()
    s.on_before_batch_flush.subscribe(before_flush)
    root = make(prog, None)
    buf = io.StringIO()
    with contextlib.redirect_stdout(buf), contextlib.redirect_stderr(buf):
        try:
            out = ("val", root())
        except Exception as e:
            out = ("exc", tag(e))
    # ---- end-of-run oracles
    if len(s._tasks) or len(s._batches) or s.active_task is not None or scheduler.get_active_task() is not None:
        run.problem("C08", "the scheduler is not clean after the computation", tasks=len(s._tasks), batches=len(s._batches),
                    active=repr(s.active_task)[:80])
    if SV.get() != "default":
        run.problem("C07", "an overridden scoped value is not restored after the computation", value=SV.get())
    if run.active_contexts():
        run.problem("C06", "contexts are still active after the computation", active=run.active_contexts())
    per = {}
    for e, n in run.ctxlog:
        per.setdefault(n, []).append(e)
    for n, evs in per.items():
        if evs[0] != "r" or evs[-1] != "p" or any(a == b for a, b in zip(evs, evs[1:])):
            run.problem("C06", "resume/pause of one context do not strictly alternate from a resume to a pause", context=n, events="".join(evs))
            break
    stack = []
    for e, n in run.ctxlog:
        if e == "r":
            stack.append(n)
        elif stack and stack[-1] == n:
            stack.pop()
        elif n in stack:
            run.problem("C07", "context activations are not properly nested (a context was paused while a later-resumed one is active)",
                        paused=n, innermost=stack[-1])
            break
    for parent, group in run.yield_groups:
        firsts = [min(run.started.index(t) for t in member if t in run.started) for member in group
                  if any(t in run.started for t in member)]
        if firsts != sorted(firsts):
            run.problem("C03", "tasks yielded together in a list/tuple did not start in the order written", parent=parent, members=group,
                        started=[t for t in run.started if any(t in m for m in group)])
            break
    pending = [t for t in run.tasks if not t.is_computed()]
    if pending:
        run.problem("C03", "the computation ended (value() returned or raised) while a task it transitively awaited is not computed",
                    outcome=repr(out)[:200], uncomputed=len(pending))
    want = ref_task(prog)
    if out != want:
        run.problem("C01" if want[0] == "val" and out[0] == "val" else "C02",
                    "the outcome differs from sequential depth-first evaluation of the same program",
                    got=repr(out)[:400], expected=repr(want)[:400])
    return run.problems


def _programs(sync, n, seed0, dag=False):
    for seed in range(seed0, seed0 + n):
        rnd = random.Random(seed)
        g = Gen(rnd, sync, dag=dag)
        d = g.task(0)
        while not d["steps"]:
            d = g.task(0)
        _POOL["descs"], _POOL["ref"] = list(g.pool), {}
        yield seed, d


@scenario(["async_task.", "scheduler.TaskScheduler.", "contexts.", "scoped_value.", "futures.FutureBase.value", "batching.BatchBase."],
          ["C01", "C02", "C03", "C04", "C05", "C06", "C07", "C08"])
def random_programs_vs_sequential(req):
    """Random task programs (nested yield structures over child tasks, three batch kinds, failing items, constant/error/lazy futures, None, repeated futures, non-futures; try/except, own raises, AsyncContexts and scoped-value overrides around yields; a second family adds synchronous calls) run on the real scheduler and compared with a sequential depth-first reference; monitors check start order, resumption, the waiting condition and priority at every flush, context activity and nesting at every piece of task code and every flush, the active task, and a clean scheduler at the end."""
    pid = (req or {}).get("property") or "C01"
    tier = __import__("os").environ.get("VERIF_TIER", "quick")
    n = 1500 if tier != "thorough" else 15000
    for family, yield_only, sync, dag, seed0 in (("yield-only", True, False, False, 1000), ("with synchronous calls", False, True, False, 5000),
                                                 ("tasks awaited by several parents (yield-only)", True, False, True, 20000)):
        if not yield_only and pid in ("C04",):
            continue
        if dag and pid in ("C06", "C07"):
            continue
        for seed, prog in _programs(sync, n, seed0, dag=dag):
            problems = build_and_run(prog, pid, yield_only)
            if problems:
                p = problems[0]
                p = dict(p)
                what = p.pop("what")
                return fail(what, family=family, seed=seed, **p)
    return None


@scenario(["decorators.convert_asynq_to_async", "asynq_to_async.", "decorators.PureAsyncDecorator.asyncio", "decorators.AsyncDecorator"], ["C15"])
def asyncio_random_programs(req):
    """Random batch-free programs (trees of tasks, constant futures, None, nested tuples/lists/dicts, tasks that raise, try/except around any yield): awaiting root.asyncio() on an event loop gives the value / raises the exception that root() gives and that sequential evaluation gives, and the asyncio-mode flag is off afterwards."""
    import asyncio
    from asynq import asynq as A, futures, scheduler
    from asynq.asynq_to_async import is_asyncio_mode
    n = 300 if __import__("os").environ.get("VERIF_TIER", "quick") != "thorough" else 3000

    ended = set()
    late = []

    def build(d):
        @A()
        def body():
            try:
                recs = []
                for k, st in enumerate(d["steps"]):
                    y = realize(st)
                    try:
                        v = yield y
                    except Exception as e:
                        # all awaitables yielded together have been awaited to completion before the failure is raised here
                        missing = [t for t in task_leaves_in_order(st, []) if t not in ended]
                        if missing:
                            late.append((d["id"], k, missing))
                        if d["catch"]:
                            recs.append(("caught", e.tag if isinstance(e, RErr) else type(e).__name__))
                            continue
                        raise
                    recs.append(v)
                    if d["raise_at"] == k:
                        raise RErr("own%d" % d["id"])
                return (d["id"], recs)
            finally:
                ended.add(d["id"])
        return body

    def realize(st):
        if st[0] == "leaf":
            l = st[1]
            if l["k"] == "task":
                return build(l["task"]).asynq()
            if l["k"] == "const":
                return futures.ConstFuture(l["v"])
            return None
        vals = [realize(m) for m in st[1]]
        return tuple(vals) if st[0] == "tuple" else vals if st[0] == "list" else {"m%d" % i: v for i, v in enumerate(vals)}

    def outcome(thunk):
        try:
            return ("val", thunk())
        except Exception as e:
            return ("exc", e.tag if isinstance(e, RErr) else type(e).__name__)
    for seed in range(9000, 9000 + n):
        g = Gen(random.Random(seed), False, batch_free=True)
        prog = g.task(0)
        while not prog["steps"]:
            prog = g.task(0)
        want = ref_task(prog)
        scheduler.reset()
        ended.clear(); del late[:]
        got_sync = outcome(lambda: build(prog)())
        if late:
            return fail("fn(): a failure among futures yielded together was raised before all of them had completed", seed=seed, where=repr(late[:2]))
        ended.clear(); del late[:]
        got_aio = outcome(lambda: asyncio.run(build(prog).asyncio()))
        if late:
            return fail("fn.asyncio(): a failure among awaitables yielded together was raised at the yield before all of them had completed",
                        seed=seed, where=repr(late[:2]))
        if got_sync != want:
            return fail("fn() differs from sequential evaluation of a batch-free program", seed=seed, got=repr(got_sync)[:300], expected=repr(want)[:300])
        if got_aio != got_sync:
            return fail("awaiting fn.asyncio() does not give what fn() gives for a batch-free program", seed=seed,
                        asyncio=repr(got_aio)[:300], sync=repr(got_sync)[:300])
        if is_asyncio_mode():
            return fail("the asyncio-mode flag is still on after the coroutine finished", seed=seed)
    return None
