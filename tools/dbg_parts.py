# dev helper (see header of tools/mutcheck.py): times / dumps obligations of one function; run with PYTHONPATH=/verif python3-vt
import sys, time, z3
sys.path.insert(0, "/verif")
from pyvc import verify
from pyvc.symexec import FuncExec
qual, name, pat = sys.argv[1], sys.argv[2], sys.argv[3:]
repo, reg, eng = verify.setup("/repo")
c = reg.contracts[qual]
module, fn = repo.function(qual)
cls = module.owner.get(qual.split(".", 1)[1])
eng.ct.used = set()
fx = FuncExec(eng, qual, c, module, fn, cls)
obs = fx.run()
for ob in obs:
    if ob.name.endswith(name) and all(any(p in t for t in ob.trace) for p in pat):
        print(ob.trace)
        for l, f in ob.parts:
            s = z3.Solver(); s.set("timeout", 20000)
            for a in eng.axioms(): s.add(a)
            for a in (getattr(ob, "facts", None) or []): s.add(a)
            for a in ob.pc: s.add(a)
            s.add(z3.Not(f))
            t0 = time.time(); r = s.check(); dt = time.time() - t0
            print(l, r, round(dt, 2), str(f)[:150].replace("\n", " ") if dt > 1 else "")
        break
