"""Contracts for asynq/async_task.py (C01-C03 step contracts, C06/C07 context loops, C10 task completion)."""
import z3
from pyvc import smt
from pyvc.smt import V, NONE, NONE_MARK
from pyvc.state import fresh_name
from pyvc.contract import Contract as C
from .futures_c import FRESH, NOTIF, FROZEN, KEEP

T = "async_task.AsyncTask."


def q(n):
    return z3.Const(fresh_name(n), V)


TASK_FIELDS = ["fn", "args", "kwargs", "iteration_index", "_generator", "_frame", "_last_value", "_dependencies",
               "_contexts", "_contexts_active", "_dependencies_scheduled", "_total_time", "_name", "perf_stats",
               "creator", "running", "_id"]


_late = []


def register(reg, repo):
    reg.elem_types[("AsyncTask", "_dependencies")] = "FutureBase"
    reg.field_types[("AsyncTask", "_contexts")] = "OrderedDict"
    reg.field_types[("AsyncTask", "creator")] = "AsyncTask"
    reg.field_types[("AsyncTaskResult", "result")] = None

    # a task's step state is untouched (E4: unknown code does not advance it)
    reg.macro("wellformed_exc", ["e"],
              "implies(isinstance(e, StopIteration), e.value is not _none) and "
              "implies(isinstance(e, AsyncTaskResult), e.result is not _none)")
    reg.macro("task_frozen", ["t"],
              "t.iteration_index is old(t.iteration_index) and t._generator is old(t._generator) and "
              "t._last_value is old(t._last_value) and t._dependencies is old(t._dependencies) and "
              "len(t._dependencies) == old(len(t._dependencies)) and "
              "all(t._dependencies[j] is old(t._dependencies[j]) for j in range(0, len(t._dependencies))) and "
              "t._contexts_active == old(t._contexts_active) and t._dependencies_scheduled == old(t._dependencies_scheduled) and "
              "t._contexts is old(t._contexts)")

    # ---- I-Task ---------------------------------------------------------------------------------------
    def inv_task(eng, heap):
        t = q("t!inv")
        j = z3.Int(fresh_name("j!inv"))
        g = z3.And(heap.sel("$alloc", t), eng.isinstance_f(t, [eng.ct.cls("AsyncTask")]))
        dl = heap.sel("_dependencies", t)
        el = z3.Select(heap.sel("$litem", dl), j)
        s = q("s!inv")
        gs = z3.And(heap.sel("$alloc", s), eng.isinstance_f(s, [eng.ct.cls("TaskScheduler")]))
        b = q("b!inv")
        gb = z3.And(heap.sel("$alloc", b), eng.isinstance_f(b, [eng.ct.cls("BatchBase")]))
        t2 = q("t2!inv")
        g2 = z3.And(heap.sel("$alloc", t2), eng.isinstance_f(t2, [eng.ct.cls("AsyncTask")]))
        return [
            # dependencies are futures
            smt.forall([t, j], z3.Implies(z3.And(g, 0 <= j, j < heap.sel("$llen", dl)),
                                         z3.And(heap.sel("$alloc", el), eng.isinstance_f(el, [eng.ct.cls("FutureBase")]))),
                      patterns=[z3.Select(heap.sel("$litem", heap.sel("_dependencies", t)), j)]),
            # an announced task is finished: generator closed, nothing pending
            smt.forall([t], z3.Implies(z3.And(g, heap.sel("$n_notified", t) >= 1),
                                      z3.And(heap.sel("_generator", t) == NONE, heap.sel("$llen", dl) == 0,
                                             heap.sel("_last_value", t) == NONE)),
                      patterns=[heap.sel("_generator", t)]),
            # ownership of the dependency list
            smt.forall([t, s], z3.Implies(z3.And(g, gs), dl != heap.sel("_tasks", s)),
                      patterns=[z3.MultiPattern(heap.sel("_dependencies", t), heap.sel("_tasks", s))]),
            smt.forall([t, b], z3.Implies(z3.And(g, gb), dl != heap.sel("items", b)),
                      patterns=[z3.MultiPattern(heap.sel("_dependencies", t), heap.sel("items", b))]),
            smt.forall([t, t2], z3.Implies(z3.And(g, g2, t != t2), dl != heap.sel("_dependencies", t2)),
                      patterns=[z3.MultiPattern(heap.sel("_dependencies", t), heap.sel("_dependencies", t2))]),
        ]
    reg.inv_hooks.append(inv_task)

    # ---- T2: a running generator cannot be resumed; a finished task never runs again ------------------
    def ts_task(eng, old, new, skip=()):
        if "task" in skip:
            return []
        t = q("t!t2")
        g = z3.And(old.sel("$alloc", t), eng.isinstance_f(t, [eng.ct.cls("AsyncTask")]))
        dl = old.sel("_dependencies", t)
        frozen = z3.And(new.sel("iteration_index", t) == old.sel("iteration_index", t),
                        new.sel("_generator", t) == old.sel("_generator", t),
                        new.sel("_last_value", t) == old.sel("_last_value", t),
                        new.sel("_dependencies", t) == dl,
                        new.sel("$llen", dl) == old.sel("$llen", dl),
                        new.sel("$litem", dl) == old.sel("$litem", dl),
                        new.sel("running", t) == old.sel("running", t))
        return [
            smt.forall([t], z3.Implies(g, new.sel("running", t) == old.sel("running", t)),
                      patterns=[new.sel("running", t)]),
            smt.forall([t], z3.Implies(z3.And(g, old.sel("running", t) == smt.TRUE), frozen),
                      patterns=[new.sel("iteration_index", t), new.sel("_generator", t), new.sel("_dependencies", t)]),
            smt.forall([t], z3.Implies(z3.And(g, old.sel("_generator", t) == NONE),
                                      z3.And(new.sel("_generator", t) == NONE,
                                             new.sel("iteration_index", t) == old.sel("iteration_index", t))),
                      patterns=[new.sel("_generator", t)]),
        ]
    reg.two_state_hooks.append(ts_task)

    def fresh_task(eng, st, o, clsname):
        if eng.ct.is_sub(clsname, "AsyncTask"):
            st.heap.store("running", o, smt.FALSE)
            st.heap.store("_generator", o, smt.const("uninit:generator"))
    reg.fresh_hooks.append(fresh_task)

    # ---- the user's generator (environment) -------------------------------------------------------------
    GEN_POST = ["gen.$n_steps == old(gen.$n_steps) + 1"]
    GEN_X = GEN_POST + ["wellformed_exc(exc)"]
    OWNER_KEPT = ("all(implies(old(alloc(t)) and old(t._generator) is gen, computed(t) == old(computed(t))) "
                  "for t in objs(AsyncTask))")
    reg.add(C("env.gen.send", params=["gen", "value"], kind="method", modifies="*", trusted=True,
              requires=["gen is not None"],
              post=GEN_POST + ["result is not _none"], xpost=GEN_X,
              note="generator.send: the task body runs to its next yield / return / raise; it may synchronously "
                   "re-enter the scheduler (E1/E2); ghost $n_steps counts resumptions"))
    reg.add(C("env.gen.throw", params=["gen", "*a"], kind="method", modifies="*", trusted=True,
              requires=["gen is not None"],
              post=GEN_POST + ["result is not _none"], xpost=GEN_X, note="generator.throw(type, value[, tb])"))
    reg.add(C("env.gen.close", params=["gen"], kind="method", modifies="*", trusted=True,
              requires=["gen is not None"], post=[OWNER_KEPT], xpost=None,
              note="generator.close(): finally/with blocks of the body run; assumed not to raise and not to complete the task that owns the generator"))
    reg.add(C("env.ctx.pause", params=["ctx"], kind="method", modifies="*", trusted=True,
              post=["ctx.$n_pause == old(ctx.$n_pause) + 1",
                    "all(implies(old(alloc(t)), task_frozen(t)) for t in objs(AsyncTask))"],
              xpost=["ctx.$n_pause == old(ctx.$n_pause) + 1",
                     "all(implies(old(alloc(t)), task_frozen(t)) for t in objs(AsyncTask))"],
              note="user context hook: may raise anything; E4'': does not advance pre-existing tasks"))
    reg.add(C("env.ctx.resume", params=["ctx"], kind="method", modifies="*", trusted=True,
              post=["ctx.$n_resume == old(ctx.$n_resume) + 1",
                    "all(implies(old(alloc(t)), task_frozen(t)) for t in objs(AsyncTask))"],
              xpost=["ctx.$n_resume == old(ctx.$n_resume) + 1",
                     "all(implies(old(alloc(t)), task_frozen(t)) for t in objs(AsyncTask))"],
              note="user context hook"))

    reg.add(C("qcore.inspection.is_cython_or_generator", params=["x"], modifies=[], post=[], xpost=None, trusted=True,
              pure_fn="is_cython_or_generator"))
    reg.add(C("qcore.inspection.get_full_name", params=["x"], modifies=[], post=[], xpost=None, trusted=True,
              returns_type="str"))
    reg.add(C("qcore.inspection.get_function_call_str", params=["fn", "args", "kwargs"], modifies=[], post=[], xpost=None,
              trusted=True, returns_type="str"))
    reg.add(C("qcore.helpers.safe_str", params=["x"], modifies=[], post=[], xpost=None, trusted=True, returns_type="str"))

    reg.add(C("scheduler.get_active_task", modifies=[], post=["result is None or isinstance(result, AsyncTask)"],
              xpost=None, returns_type="AsyncTask", trusted=True, note="verified in scheduler_c (module functions)"))
    reg.add(C("scheduler.get_scheduler", modifies=[], post=["isinstance(result, TaskScheduler)", "alloc(result)"],
              xpost=None, returns_type="TaskScheduler", trusted=True))

    # ---- structural helpers (bounded stand-in: see bounded/structures.py) -------------------------------
    reg.add(C("async_task.unwrap", params=["value"], modifies=["$alloc"], trusted=True,
              post=["R_unwrap(value, result)"], xpost=["exc is first_err(value)", "wellformed_exc(exc)"], labels={"keeps_inv": True},
              note="contract of unwrap used by callers; its body is checked by the bounded stand-in "
                   "(all structures to depth 3 / width 3), not proved.  Effect-free because every leaf is computed "
                   "at its only call site (_continue requires not blocked; leaves are dependencies by extract_futures)"))
    reg.add(C("async_task.extract_futures", params=["value", "result"], modifies=["$llen", "$litem"], trusted=True,
              post=["len(result) >= old(len(result))",
                    "all(result[j] is old(result[j]) for j in range(0, old(len(result))))",
                    "all(alloc(result[j]) and isinstance(result[j], FutureBase) for j in range(old(len(result)), len(result)))",
                    "only(result, '$llen', '$litem')",
                    "implies(value is None, len(result) == old(len(result)))"],
              xpost=None,
              note="appends the futures inside `value` (tuple/list members right-to-left, dict values left-to-right); "
                   "body checked by the bounded stand-in"))

    # ---- AsyncTask ------------------------------------------------------------------------------------------
    reg.add(C(T + "__init__", requires=FRESH + ["self.$n_notified == 0"],
              modifies=["_value", "_error", "_in_repr", "on_computed", "$alloc", "counter", "$olen", "$dhas"] + TASK_FIELDS,
              post=["self._value is _none", "self._error is None", "int(self.iteration_index) == 0",
                    "self._generator is generator", "len(self._dependencies) == 0", "fresh(self._dependencies)",
                    "self._last_value is None", "self._contexts_active == False", "self._dependencies_scheduled == False",
                    "self.running == False", "self.fn is fn", "self.args is args", "self.kwargs is kwargs",
                    "olen(self._contexts) == 0", "fresh(self._contexts)",
                    "only(self, '_value', '_error', '_in_repr', 'on_computed', " + ", ".join("'%s'" % f for f in TASK_FIELDS) + ")"],
              xpost=["opt('ENABLE_COMPLEX_ASSERTIONS')", "isinstance(exc, AssertionError)"],
              two_state=False,
              calls={"asynq.scheduler.get_active_task": "scheduler.get_active_task",
                     "core_inspection.is_cython_or_generator": "qcore.inspection.is_cython_or_generator"},
              labels={("post", 2): "created-but-not-started"}))

    reg.add(C(T + "can_continue", modifies=[], post=["result == (self._generator is not None)"], xpost=None,
              returns_type="bool"))

    reg.add(C(T + "is_blocked", modifies=[],
              post=["result == blocked(self)"], xpost=None, returns_type="bool",
              types={"dependency": "FutureBase"},
              invariants={1: ["_it1 is self._dependencies",
                              "all(computed(self._dependencies[j]) for j in range(0, int(_i1)))"]},
              labels={("post", 0): "blocked-iff-some-dependency-uncomputed"}))

    reg.add(C(T + "_compute", modifies="*",
              requires=["not computed(self)", "self.running == False"],
              calls={"asynq.scheduler.get_scheduler": "scheduler.get_scheduler"},
              post=["computed(self)"], xpost=["True"]))

    reg.add(C(T + "_computed", modifies="*",
              requires=["computed(self)", "self.$n_notified == 0", "self.running == False"],
              calls={"self._generator.close": "env.gen.close"},
              post=[NOTIF, FROZEN, "self._generator is None", "len(self._dependencies) == 0", "self._last_value is None"],
              xpost=None,
              labels={"ts_skip": ("notif",)}))
    reg.add(C(T + "collect_perf_stats", modifies=["perf_stats"], post=[], xpost=None, trusted=True,
              note="profiling only (C20 erase)"))
    reg.add(C(T + "dump_perf_stats", modifies=["stats_log"], post=[], xpost=None, trusted=True,
              note="profiling sink: writes the task's own perf_stats dict and the profiler buffer (diagnostic footprint, C20)"))

    reg.add(C(T + "_queue_exit", modifies="*",
              calls={"self._generator.close": "env.gen.close"},
              post=["not old(computed(self))", "computed(self)", "self._value is result or computed(old(self))",
                    "self._generator is None"],
              requires=["result is not _none", "self.running == False"],
              xpost=["old(computed(self))", "isinstance(exc, FutureIsAlreadyComputed)", "no_callout()"]))

    reg.add(C(T + "_queue_throw_error", modifies="*", requires=["self.running == False"],
              post=["not old(computed(self))", "computed(self)", "self._error is error"],
              xpost=["old(computed(self))", "isinstance(exc, FutureIsAlreadyComputed)", "no_callout()"],
              labels={("post", 2): "same-error-object"}))

    reg.add(C(T + "_accept_error", modifies="*", requires=["self.running == False"],
              calls={"core_errors.prepare_for_reraise": "qcore.errors.prepare_for_reraise"},
              post=["computed(self)", "implies(not old(computed(self)), self._error is error)",
                    "implies(old(computed(self)), no_callout())"],
              xpost=None,
              labels={("post", 1): "same-error-object"}))

    reg.add(C(T + "_accept_yield_result", modifies=["_last_value", "$llen", "$litem"],
              requires=["not computed(self)", "self.running == False"],
              post=["self._last_value is result", "self._dependencies is old(self._dependencies)",
                    "len(self._dependencies) >= old(len(self._dependencies))",
                    "implies(result is None, len(self._dependencies) == old(len(self._dependencies)))",
                    "only(self, '_last_value')", "only(self._dependencies, '$llen', '$litem')"],
              xpost=None))

    RU = z3.Function("R_unwrap", V, V, z3.BoolSort())
    FE = z3.Function("first_err", V, V)
    reg.pyfuncs["R_unwrap"] = lambda env, v, r: RU(v, r)
    reg.pyfuncs["first_err"] = lambda env, v: FE(v)

    STEP = "callcount('env.gen.send') + callcount('env.gen.throw')"
    _late.append(register_unwrap)
    reg.add(C(T + "_continue_on_generator", modifies="*",
              requires=["not computed(self)", "self.running == False", "error is None or wellformed_exc(error)"],
              calls={"self._generator.send": "env.gen.send", "self._generator.throw": "env.gen.throw",
                     "debug.get_frame": "debug.get_frame", "sys.exc_info": "env.exc_info"},
              post=["old(self._generator) is not None",
                    STEP + " == 1",
                    "implies(error is None, callcount('env.gen.send') == 1)",
                    "int(self.iteration_index) == old(int(self.iteration_index)) + 1",
                    "self._last_value is None", "self.running == False",
                    "self._generator is old(self._generator)",
                    "implies(not opt('KEEP_DEPENDENCIES'), len(self._dependencies) == 0)",
                    "implies(opt('KEEP_DEPENDENCIES'), self._dependencies is old(self._dependencies) and len(self._dependencies) == old(len(self._dependencies)))",
                    "alloc(self._dependencies) and exact(self._dependencies, list)",
                    "not computed(self)"],
              xpost=["self._generator is None", "self.running == False",
                     "implies(old(self._generator) is None, " + STEP + " == 0)",
                     "implies(old(self._generator) is None and error is None, isinstance(exc, StopIteration))",
                     "implies(old(self._generator) is None and error is not None, exc is error)",
                     "implies(old(self._generator) is not None, " + STEP + " == 1)",
                     "implies(old(self._generator) is not None, int(self.iteration_index) == old(int(self.iteration_index)) + 1)",
                     "not computed(self)",
                     "wellformed_exc(exc)"],
              labels={("post", 1): "resumed-exactly-once", ("xpost", 2): "finished-generator-never-resumed",
                      ("post", 4): "yield-consumed-before-step",
                      "noattrcheck": True,
                      # E4 (acyclic awaiting): while this task's body runs, nothing re-enters this task
                      "site_assumes_after": {
                          "self._generator.send": ["task_frozen(self)", "computed(self) == old(computed(self))"],
                          "self._generator.throw": ["task_frozen(self)", "computed(self) == old(computed(self))"]},
                      "site_requires": {
                          "self._generator.send": ["value is cur_value", "self.running == True", "self._last_value is None"],
                          "self._generator.throw": ["self._last_value is None"]}},
              invariants={1: ["True"]},
              ghost_locals={}))
    reg.add(C("env.exc_info", params=[], modifies=[], post=["tlen(result) == 3"], xpost=None, trusted=True,
              returns_type="tuple"))

    reg.add(C(T + "_continue", modifies="*",
              requires=["not computed(self)", "not blocked(self)", "self.running == False"],
              types={"error": None},
              post=["computed(self) or len(self._dependencies) > 0"],
              xpost=None,
              invariants={1: ["not computed(self)", "not blocked(self)", "self.running == False", "inv()", "two_state('old')"]},
              labels={"site_requires": {
                  "self._continue_on_generator": ["not blocked(self)", "not computed(self)",
                                                  "implies(error is None, R_unwrap(self._last_value, value))",
                                                  "implies(error is not None, value is None)"],
                  "self._queue_exit": ["not computed(self)"],
              }, ("post", 0): "returns-only-when-done-or-waiting"}))

    for f in _late:
        f(reg, repo)
    del _late[:]


def register_unwrap(reg, repo):
    """Body contract of unwrap: one-level unfolding of the relation R_unwrap ('r is v with every future replaced by
    its value, same shape').  R_unwrap is a relation symbol closed under the introduction rules R_intro() (its
    definition); recursive calls use this same contract, so every level is checked against one unfolding."""
    import z3
    from pyvc import smt
    from pyvc.smt import V, NONE, NONE_MARK
    from pyvc.state import fresh_name
    from pyvc.contract import Contract as C
    RU = z3.Function("R_unwrap", V, V, z3.BoolSort())

    def r_intro(env):
        h = env.heap
        eng = env.eng
        v, r = z3.Const(fresh_name("v!ri"), V), z3.Const(fresh_name("r!ri"), V)
        i = z3.Int(fresh_name("i!ri"))
        isf = eng.isinstance_f(v, [eng.ct.cls("FutureBase")])
        tup = lambda x: smt.typeof(x) == eng.ct.cls("tuple")
        lst = lambda x: smt.typeof(x) == eng.ct.cls("list")
        dct = lambda x: smt.typeof(x) == eng.ct.cls("dict")
        ll = lambda x: h.sel("$llen", x)
        li = lambda x, k: z3.Select(h.sel("$litem", x), k)
        ol = lambda x: h.sel("$olen", x)
        ok = lambda x, k: z3.Select(h.sel("$okey", x), k)
        ov = lambda x, k: z3.Select(h.sel("$oval", x), k)
        rules = [
            z3.ForAll([v, r], z3.Implies(z3.And(v == NONE, r == NONE), RU(v, r)), patterns=[RU(v, r)]),
            z3.ForAll([v, r], z3.Implies(z3.And(isf, h.sel("_value", v) != NONE_MARK, h.sel("_error", v) == NONE, r == h.sel("_value", v)),
                                         RU(v, r)), patterns=[RU(v, r)]),
            z3.ForAll([v, r], z3.Implies(z3.And(tup(v), tup(r), smt.tlen(v) == smt.tlen(r),
                                                z3.ForAll([i], z3.Implies(z3.And(0 <= i, i < smt.tlen(v)), RU(smt.titem(v, i), smt.titem(r, i))))),
                                         RU(v, r)), patterns=[RU(v, r)]),
            z3.ForAll([v, r], z3.Implies(z3.And(lst(v), lst(r), ll(v) == ll(r),
                                                z3.ForAll([i], z3.Implies(z3.And(0 <= i, i < ll(v)), RU(li(v, i), li(r, i))))),
                                         RU(v, r)), patterns=[RU(v, r)]),
            z3.ForAll([v, r], z3.Implies(z3.And(dct(v), dct(r), ol(v) == ol(r),
                                                z3.ForAll([i], z3.Implies(z3.And(0 <= i, i < ol(v)),
                                                                          z3.And(ok(v, i) == ok(r, i), RU(ov(v, i), ov(r, i)))))),
                                         RU(v, r)), patterns=[RU(v, r)]),
        ]
        return z3.And(*rules)
    reg.pyfuncs["R_intro"] = r_intro

    # the caller-facing contract (effect-free when every leaf is computed) keeps its old name for _continue
    eff = reg.contracts.pop("async_task.unwrap")
    eff.name = "async_task.unwrap!effectfree"
    reg.contracts[eff.name] = eff
    reg.contracts["async_task.AsyncTask._continue"].calls["unwrap"] = eff.name

    CONT = "exact(value, tuple) or exact(value, list) or exact(value, dict)"
    reg.add(C("async_task.unwrap", modifies="*",
              assumes=["implies(exact(value, dict), all(all(implies(i < j, okey(value, i) is not okey(value, j)) for i in range(0, j)) "
                       "for j in range(0, olen(value))))"],
              types={"tpl": "tuple", "lst": "list", "dct": "dict", "future": "FutureBase", "result": "list"},
              labels={"site_assumes": {"future.value": ["not in_window(future)", "computed(future) or not isinstance(future, AsyncTask) or future.running == False"]},
                      # R_unwrap is DEFINED as the least relation closed under R_intro() in every heap; the body proves
                      # R_intro(exit heap) => R_unwrap(value, retval), hence callers may use the fact itself
                      "caller_post": ["R_unwrap(value, retval)"],
                      # E: the yielded list / dict is not mutated by unknown code while its members are being unwrapped
                      "site_assumes_after": {"unwrap": [
                          "implies(exact(value, list), len(value) == old(len(value)) and all(value[i] is old(value[i]) for i in range(0, len(value))))",
                          "implies(exact(value, dict), olen(value) == old(olen(value)) and "
                          "all(okey(value, i) is old(okey(value, i)) and oval(value, i) is old(oval(value, i)) for i in range(0, olen(value))))"]},
                      "loop_mutates": {1: ["result"], 2: ["_c2"], 3: ["_c3"]},
                      ("post", 0): "relation-holds", ("post", 1): "none-stays-none", ("post", 2): "future-replaced-by-its-value",
                      ("post", 3): "tuple-same-shape", ("post", 4): "list-same-shape", ("post", 5): "dict-same-keys-same-order",
                      ("xpost", 0): "future-raises-its-own-error-object", ("xpost", 1): "non-future-is-TypeError"},
              post=["implies(R_intro(), R_unwrap(value, retval))",
                    "implies(value is None, retval is None)",
                    "implies(isinstance(value, FutureBase), computed(value) and value._error is None and retval is value._value)",
                    "implies(exact(value, tuple), exact(retval, tuple) and tlen(retval) == tlen(value) and "
                    "all(R_unwrap(titem(value, i), titem(retval, i)) for i in range(0, tlen(value))))",
                    "implies(exact(value, list), exact(retval, list) and len(retval) == len(value) and "
                    "all(R_unwrap(value[i], retval[i]) for i in range(0, len(value))))",
                    "implies(exact(value, dict), exact(retval, dict) and olen(retval) == olen(value) and "
                    "all(okey(retval, i) is okey(value, i) and R_unwrap(oval(value, i), oval(retval, i)) for i in range(0, olen(value))))"],
              xpost=["implies(isinstance(value, FutureBase) and old(computed(value)), exc is old(value._error) and old(value._error) is not None)",
                     "implies(value is not None and not isinstance(value, FutureBase) and not (" + CONT + "), isinstance(exc, TypeError))",
                     "value is not None"],
              invariants={
                  1: ["exact(result, list)", "fresh(result)", "_it1 is tpl", "len(result) == int(_i1)", "int(_i1) <= tlen(tpl)",
                      "all(R_unwrap(titem(tpl, i), result[i]) for i in range(0, int(_i1)))", "inv()", "two_state('old')"],
                  2: ["exact(_c2, list)", "fresh(_c2)", "_it2 is lst", "len(_c2) == int(_i2)", "int(_i2) <= len(lst)",
                      "len(lst) == old(len(lst))", "all(lst[i] is old(lst[i]) for i in range(0, len(lst)))",
                      "all(R_unwrap(lst[i], _c2[i]) for i in range(0, int(_i2)))", "inv()", "two_state('old')"],
                  3: ["exact(_c3, dict)", "fresh(_c3)", "_it3 is dct", "olen(_c3) == int(_i3)", "int(_i3) <= olen(dct)",
                      "olen(dct) == old(olen(dct))",
                      "all(okey(dct, i) is old(okey(dct, i)) and oval(dct, i) is old(oval(dct, i)) for i in range(0, olen(dct)))",
                      "all(okey(_c3, i) is okey(dct, i) and R_unwrap(oval(dct, i), oval(_c3, i)) for i in range(0, int(_i3)))",
                      "all(dhas(_c3, k) == any(okey(dct, i) is k for i in range(0, int(_i3))) for k in vals())",
                      "inv()", "two_state('old')"]},
              note="E: a yielded list/dict is not mutated while it is being unwrapped (loop invariants 2/3 state it; unknown code running "
                   "inside future.value() could in principle mutate it: listed assumption via the invariants' frame clauses)"))
