"""Contracts for asynq/debug.py diagnostics (used as callees everywhere; the
bodies are verified for totality under C18)."""
from pyvc.contract import Contract as C


def register(reg, repo):
    # total, effect-free on the asynq heap (they write to stdout/stderr only)
    reg.add(C("debug.write", modifies=[], post=[], xpost=None, trusted=True,
              note="debug.write: stdout only (body checked under C18)"))
    reg.add(C("debug.str", modifies=[], post=[], xpost=None, returns_type="str", trusted=True,
              note="debug.str -> qcore.safe_str: total; user __str__ assumed effect-free on asynq state"))
    reg.add(C("debug.repr", modifies=[], post=[], xpost=None, returns_type="str", trusted=True,
              note="debug.repr -> qcore.safe_repr: total"))
    reg.add(C("debug.dump_stack", modifies=[], post=[], xpost=None, trusted=True))
    reg.add(C("debug.dump_error", modifies=[], post=[], xpost=None, trusted=True))
    reg.add(C("debug.dump", modifies=[], post=[], xpost=None, trusted=True,
              note="debug.dump(state): calls state.dump(); diagnostic only"))
    reg.add(C("debug.get_frame", modifies=[], post=[], xpost=None, trusted=True, pure_fn="get_frame"))
    register_c18(reg, repo)


def register_c18(reg, repo):
    """C18: filter_traceback and the totality of the diagnostics."""
    from pyvc.contract import Contract as C
    MATCHED = "all(contains(tb_list[int(i) + k], text_to_match[k]) for k in range(0, len(text_to_match)))"
    reg.pyfuncs["contains"] = _contains
    reg.add(C("debug.filter_traceback",
              types={"tb_list": "list", "tb_list[]": "str", "output": "list", "text_to_match": "list", "text_to_match[]": "str",
                     "replacement": "str", "REPLACEMENTS": "list", "REPLACEMENTS[]": "tuple",
                     "TASK_CONTINUE": "tuple", "FUTURE_BASE": "tuple", "CALL_PURE": "tuple", "i": "int", "j": "int"},
              modifies=["$alloc"],
              post=["exact(result, list)", "fresh(result)", "len(result) <= len(tb_list)",
                    "len(tb_list) == old(len(tb_list))"],
              xpost=None,
              invariants={
                  1: ["0 <= int(i) and int(i) <= len(tb_list)", "exact(output, list)", "len(output) <= int(i)", "output is pre(output)",
                      "exact(REPLACEMENTS, list) and len(REPLACEMENTS) == 3",
                      "all(tlen(REPLACEMENTS[r]) == 2 and exact(titem(REPLACEMENTS[r], 0), list) and len(titem(REPLACEMENTS[r], 0)) >= 1 "
                      "for r in range(0, 3))",
                      "REPLACEMENTS is pre(REPLACEMENTS)"],
                  2: ["_it2 is REPLACEMENTS", "0 <= int(_i2) and int(_i2) <= 3", "did_replacement == False",
                      "0 <= int(i) and int(i) < len(tb_list)", "int(i) == pre(int(i))",
                      "exact(output, list)", "len(output) <= int(i)", "output is pre(output)", "len(output) == pre(len(output))",
                      "exact(REPLACEMENTS, list) and len(REPLACEMENTS) == 3",
                      "all(tlen(REPLACEMENTS[r]) == 2 and exact(titem(REPLACEMENTS[r], 0), list) and len(titem(REPLACEMENTS[r], 0)) >= 1 "
                      "for r in range(0, 3))"],
                  3: ["0 <= int(j) and int(j) <= len(text_to_match)", "matches == True or matches == False",
                      "implies(matches, all(contains(tb_list[int(i) + k], text_to_match[k]) for k in range(0, int(j))))",
                      "implies(matches, int(i) + int(j) <= len(tb_list))",
                      "exact(text_to_match, list) and len(text_to_match) >= 1"],
              },
              labels={"loop_mutates": {1: ["output"], 2: ["output"]},
                      "site_requires": {"output.append": ["implies(did_replacement == False and matches == True and int(j) == len(text_to_match), " + MATCHED + ")"]},
                      ("post", 2): "never-longer-than-input"},
              note="a marker line is appended only when every line of the run contains the corresponding pattern of ONE replacement "
                   "(site obligation at output.append); lines are opaque, `in` on strings is an uninterpreted containment predicate"))


def _contains(env, hay, needle):
    from pyvc.exprs import STR_CONTAINS
    from pyvc.spec import as_v
    return STR_CONTAINS(as_v(hay), as_v(needle))
