"""Contracts for asynq/generator.py (C17).  The @asynq()/@async_proxy() bodies are verified as the functions the
decorators wrap; `yield X` inside them is a call of the environment contract env.yield (the scheduler resumes the
body with the unwrapped value of X or throws X's error: C01/C02)."""
from pyvc.contract import Contract as C

G = "generator."


def register(reg, repo):
    reg.add(C("env.yield", params=["value"], modifies="*", trusted=True,
              post=["None.$last_yield is result"], xpost=["True"],
              note="`v = yield X` in an @asynq body: resumed with the unwrapped value of X (C01) or X's error is thrown (C02); "
                   "ghost $last_yield = the value the body is resumed with"))
    reg.add(C("env.iter.next", params=["it"], modifies="*", trusted=True,
              post=["result is not END_OF_GENERATOR or True"], xpost=["True"],
              note="next() on the async generator object: returns the next task or raises StopIteration"))
    reg.add(C("env.send.asynq", params=["fn", "*args"], kind="callvalue", modifies="*", trusted=True, post=[], xpost=["True"]))

    reg.add(C(G + "Value.__init__", modifies=["value", "$has:value"], post=["self.value is value", "only(self, 'value', '$has:value')"],
              xpost=None, two_state=False))
    reg.add(C(G + "_AsyncGenerator.__init__", modifies=["generator", "last_task", "is_stopped"],
              post=["self.generator is generator", "self.last_task is None", "self.is_stopped == False",
                    "only(self, 'generator', 'last_task', 'is_stopped')"], xpost=None, two_state=False))
    reg.add(C(G + "_AsyncGenerator.__iter__", modifies=[], post=["result is self"], xpost=None))
    reg.add(C(G + "_AsyncGenerator.__repr__", modifies=[], post=[], xpost=None,
              note="totality (C18): every attribute read is defined by the class"))
    reg.add(C(G + "Value.__repr__", modifies=[], post=[], xpost=None))

    reg.add(C(G + "_AsyncGenerator._get_one_value", modifies="*",
              calls={"self.generator.send": "env.usergen.send"},
              labels={"noattrcheck": True, ("xpost", 1): "exhaustion-is-latched"},
              post=["callcount('env.usergen.send') == 1"],
              xpost=["callcount('env.usergen.send') == 1", "implies(isinstance(exc, StopIteration), self.is_stopped == True)"]))
    reg.add(C("env.usergen.send", params=["gen", "value"], kind="method", modifies="*", trusted=True, post=[], xpost=["True"],
              note="send() on the user's generator object behind an @async_generator"))

    EARLY = "old(self.last_task) is not None and not old(computed(self.last_task))"
    reg.add(C(G + "_AsyncGenerator.send", modifies="*",
              calls={"self._send_inner.asynq": "env.send.asynq", "self.last_task.is_computed": "futures.FutureBase.is_computed"},
              types={"first_value": None},
              labels={"noattrcheck": True, "site_assumes": {"ConstFuture": ["first_value.value is not _none"]},
                      ("xpost", 0): "early-advance-raises-RuntimeError-without-stepping",
                      ("xpost", 1): "exhausted-keeps-raising-StopIteration"},
              requires=["self.last_task is None or isinstance(self.last_task, FutureBase)"],
              post=["not (" + EARLY + ")", "not old(self.is_stopped)",
                    "callcount('generator._AsyncGenerator._get_one_value') == 1"],
              xpost=["implies(" + EARLY + ", isinstance(exc, RuntimeError) and callcount('generator._AsyncGenerator._get_one_value') == 0)",
                     "implies(not (" + EARLY + ") and old(self.is_stopped), isinstance(exc, StopIteration) and "
                     "callcount('generator._AsyncGenerator._get_one_value') == 0)"]))

    reg.add(C(G + "_AsyncGenerator._send_inner", modifies="*", generator="env.yield",
              labels={"noattrcheck": True,
                      "site_requires": {"self._get_one_value": ["yield_result is None.$last_yield"]},
                      ("post", 0): "marker-only-when-the-body-ended"},
              post=["result is END_OF_GENERATOR or callcount('generator._AsyncGenerator._get_one_value') >= 1"],
              xpost=["True"],
              invariants={1: ["inv()", "two_state('old')", "yield_result is None.$last_yield"]},
              note="every await inside the generator is resumed with the result of that await (site obligation)"))

    reg.add(C(G + "list_of_generator", modifies="*", generator="env.yield", types={"data": "list"},
              calls={"for:generator": "env.iter.next"},
              post=["exact(result, list)", "fresh(result)",
                    "all(result[k] is not END_OF_GENERATOR for k in range(0, len(result)))"],
              xpost=["True"],
              invariants={1: ["exact(data, list)", "data is pre(data)", "inv()", "two_state('old')", "fresh(data)",
                              "all(data[k] is not END_OF_GENERATOR for k in range(0, len(data)))"]},
              labels={"loop_mutates": {1: ["data"]}, ("post", 2): "marker-never-in-the-result"}))

    reg.add(C(G + "take_first", modifies="*", generator="env.yield", types={"ret": "list", "n": "int"},
              calls={"for:generator": "env.iter.next"},
              post=["exact(result, list)", "fresh(result)",
                    "len(result) <= int(n) or int(n) < 0",
                    "implies(int(n) <= 0, callcount('env.iter.next') == 0 and len(result) == 0)",
                    "all(result[k] is not END_OF_GENERATOR for k in range(0, len(result)))"],
              xpost=["True"],
              invariants={1: ["exact(ret, list)", "ret is pre(ret)", "inv()", "two_state('old')", "fresh(ret)", "len(ret) < int(n)",
                              "all(ret[k] is not END_OF_GENERATOR for k in range(0, len(ret)))"]},
              labels={"loop_mutates": {1: ["ret"]}, ("post", 2): "at-most-n-values",
                      ("post", 3): "nothing-consumed-for-n-0", ("post", 4): "marker-never-in-the-result"}))
