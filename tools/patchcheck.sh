#!/bin/sh
# dev helper: verify functions against a scratch copy of /repo/asynq with a patch applied
# usage: tools/patchcheck.sh <patch.diff> <qualname>...
p=$1; shift
d=$(mktemp -d /tmp/asynq_pc_XXXXXX)
cp -r /repo/asynq $d/asynq
(cd $d && patch -p1 -s < $p) || { echo "patch failed"; rm -rf $d; exit 2; }
cd /verif
ASYNQ_VERIF_REPO=$d PYTHONPATH=/verif python3-vt -m pyvc.verify "$@" 2>/dev/null | grep -E "^   (failed|unknown)|discharged \(|UNDEC" | cut -c1-260 | sort | uniq -c | sort -k2 | head -40
rm -rf $d
