"""Contracts for asynq/decorators.py, utils.py, asynq_to_async.py and mock_.py (C09, C15, C19): argument
forwarding (which callable is invoked with which argument tuple), classification helpers, asyncio-mode rules."""
from pyvc.contract import Contract as C

DE = "decorators."
AM = "truthy(_asyncio_mode.cv_value)"


def register(reg, repo):
    for cls, f, t in [("PureAsyncDecorator", "kwargs", "dict"), ("PureAsyncDecorator", "fn", None)]:
        if t:
            reg.field_types[(cls, f)] = t
    reg.extra_classes.setdefault("DecoratorBinder", ["object"])
    reg.extra_classes.setdefault("DecoratorBase", ["object"])

    # ---- classification helpers ------------------------------------------------------------------
    reg.add(C(DE + "has_async_fn", modifies=[], post=["result == (hasattr(fn, 'async') or hasattr(fn, 'asynq'))"], xpost=None,
              returns_type="bool"))
    reg.add(C(DE + "get_async_or_sync_fn", modifies=[], labels={"attrcheck:asynq": False, "noattrcheck": True},
              post=["implies(hasattr(fn, 'asynq'), result is fn.asynq)",
                    "implies(not hasattr(fn, 'asynq') and hasattr(fn, 'async'), result is dynattr(fn, 'async') or True)",
                    "implies(not hasattr(fn, 'asynq') and not hasattr(fn, 'async'), result is fn)"],
              xpost=None))

    reg.add(C("utils.result", modifies=["result", "$alloc", "$arg0", "$has:value"], post=["False"],
              xpost=["implies(not isinstance(value, FutureBase), exact(exc, AsyncTaskResult) and exc.result is value)",
                     "implies(isinstance(value, FutureBase), isinstance(exc, AssertionError))"],
              labels={("xpost", 0): "result-carries-the-value"}))
    reg.add(C("async_task.AsyncTaskResult.__init__", modifies=["result", "$arg0"],
              calls={"GeneratorExit.__init__": "env.diag"},
              post=["self.result is result", "only(self, 'result', '$arg0')"], xpost=None, two_state=False))

    # ---- call paths -----------------------------------------------------------------------------------
    reg.add(C("env.fncall", params=["fn", "*args", "**kwargs"], kind="callvalue", modifies="*", trusted=True,
              post=["alloc(result)"], xpost=["True"], note="call of the decorated / wrapped user function"))
    reg.add(C("env.inspect", params=["*args", "**kwargs"], modifies=[], trusted=True, post=[], xpost=None, returns_type="str"))
    reg.add(C("env.logger.warning", params=["self", "msg"], kind="method", modifies=[], trusted=True, post=[], xpost=None))

    reg.add(C("env.task.value", params=["self"], kind="method", modifies="*", trusted=True, post=[], xpost=["True"],
              note="value() of the task just created by _call_pure (FutureBase.value contract, C10; the new task is neither running nor in a batch window)"))
    reg.add(C(DE + "PureAsyncDecorator.asyncio", modifies="*",
              calls={"self.asyncio_fn": "env.fncall", "convert_asynq_to_async": "env.convert"},
              labels={"noattrcheck": True,
                      "site_requires": {"self.asyncio_fn": ["call_star() is args", "call_dstar() is kwargs"]},
                      ("post", 0): "one-call-of-the-asyncio-function-with-the-given-arguments"},
              post=["callcount('env.fncall') == 1", "result is last_result('env.fncall')"],
              xpost=["raised_by('env.fncall')"]))   # a forwarding wrapper raises only what the wrapped callable raised
    reg.add(C("env.convert", params=["fn"], modifies=["$alloc"], trusted=True, post=["result is not None", "alloc(result)"], xpost=None,
              labels={"keeps_inv": True}, note="convert_asynq_to_async(fn): builds the coroutine function (body under contract separately)"))

    reg.add(C(DE + "PureAsyncDecorator._call_pure", modifies="*",
              calls={"self.fn": "env.fncall", "self.task_cls": "env.fncall", "self.asyncio": DE + "PureAsyncDecorator.asyncio",
                     "self._fn_wrapper": "env.fn_wrapper"},
              labels={"noattrcheck": True,
                      "site_requires": {
                          "self.fn": ["call_star() is args", "call_dstar() is kwargs", "call_nargs() == 1"],
                          "self._fn_wrapper": ["call_arg(1) is args", "call_arg(2) is kwargs"],
                          "self.task_cls": ["call_arg(2) is self.fn", "call_arg(3) is args", "call_arg(4) is kwargs",
                                            "call_dstar() is self.kwargs"],
                          "self.asyncio": ["call_star() is args", "call_dstar() is kwargs"]},
                      ("post", 0): "asyncio-mode-redirects-to-asyncio", ("post", 1): "builds-one-task-over-the-function-and-arguments"},
              post=["implies(old(" + AM + "), callcount('" + DE + "PureAsyncDecorator.asyncio') == 1 and callcount('env.fncall') == 0)",
                    "implies(not old(" + AM + "), result is last_result('env.fncall'))",
                    "implies(not old(" + AM + ") and truthy(old(self.needs_wrapper)), callcount('env.fncall') == 2)",
                    "implies(not old(" + AM + ") and not truthy(old(self.needs_wrapper)), callcount('env.fncall') == 1)",
                    "implies(not old(" + AM + ") and not truthy(old(self.needs_wrapper)), callcount('env.fn_wrapper') == 1)"],
              xpost=["True"]))
    reg.add(C("env.fn_wrapper", params=["self", "args", "kwargs"], kind="method", modifies=["$alloc"], trusted=True,
              post=["alloc(result)"], xpost=None, labels={"keeps_inv": True},
              note="_fn_wrapper is a generator function: calling it only creates the generator (lazy start)"))

    reg.add(C(DE + "PureAsyncDecorator.__call__", modifies="*",
              calls={"self._call_pure": DE + "PureAsyncDecorator._call_pure"},
              labels={"site_requires": {"self._call_pure": ["call_arg(1) is args", "call_arg(2) is kwargs"]}},
              post=["result is last_result('" + DE + "PureAsyncDecorator._call_pure')"], xpost=["True"]))
    reg.add(C(DE + "AsyncDecorator.asynq", modifies="*",
              calls={"self._call_pure": DE + "PureAsyncDecorator._call_pure"},
              labels={"site_requires": {"self._call_pure": ["call_arg(1) is args", "call_arg(2) is kwargs"]},
                      ("post", 0): "asynq-is-call-pure-of-the-same-arguments"},
              post=["result is last_result('" + DE + "PureAsyncDecorator._call_pure')"], xpost=["True"]))
    reg.add(C(DE + "AsyncDecorator.__call__", modifies="*",
              calls={"self._call_pure": DE + "PureAsyncDecorator._call_pure", "logger.warning": "env.diag",
                     "inspect.getsourcefile": "env.inspect", "self._call_pure(args, kwargs).value": "env.task.value"},
              labels={"noattrcheck": True,
                      "site_requires": {"self._call_pure": ["call_arg(1) is args", "call_arg(2) is kwargs"]},
                      ("post", 0): "sync-call-is-value-of-call-pure", ("xpost", 0): "sync-call-in-asyncio-mode-raises-RuntimeError"},
              post=["implies(not old(" + AM + "), callcount('" + DE + "PureAsyncDecorator._call_pure') == 1 and callcount('env.task.value') == 1)",
                    "implies(old(" + AM + "), callcount('" + DE + "PureAsyncDecorator._call_pure') == 0 and truthy(old(self.allow_sync_call)))"],
              xpost=["implies(old(" + AM + ") and not truthy(old(self.allow_sync_call)), isinstance(exc, RuntimeError) and "
                     "callcount('" + DE + "PureAsyncDecorator._call_pure') == 0)"]))

    for meth in ("asynq", "asyncio"):
        reg.add(C(DE + "AsyncDecoratorBinder." + meth, modifies="*",
                  calls={"self.decorator." + meth: "env.fncall"},
                  labels={"noattrcheck": True,
                          "site_requires": {"self.decorator." + meth: [
                              "call_star() is args", "call_dstar() is kwargs",
                              "implies(self.instance is None, call_nargs() == 1)",
                              "implies(self.instance is not None, call_nargs() == 2 and call_arg(1) is self.instance)"]},
                          ("post", 0): "binder-prepends-the-bound-instance-iff-there-is-one"},
                  post=["callcount('env.fncall') == 1", "result is last_result('env.fncall')"],
              xpost=["raised_by('env.fncall')"]))   # a forwarding wrapper raises only what the wrapped callable raised

    reg.add(C(DE + "AsyncAndSyncPairDecorator.__call__", modifies="*",
              calls={"self.sync_fn": "env.fncall", "logger.warning": "env.diag", "inspect.getsourcefile": "env.inspect"},
              labels={"noattrcheck": True,
                      "site_requires": {"self.sync_fn": ["call_star() is args", "call_dstar() is kwargs", "call_nargs() == 1"]},
                      ("post", 0): "sync-call-runs-sync_fn"},
              post=["implies(not old(" + AM + "), callcount('env.fncall') == 1 and result is last_result('env.fncall'))"],
              xpost=["implies(old(" + AM + ") and not truthy(old(self.allow_sync_call)), isinstance(exc, RuntimeError) and callcount('env.fncall') == 0)"]))
    reg.add(C(DE + "AsyncAndSyncPairDecoratorBinder.__call__", modifies="*",
              calls={"self.decorator": "env.fncall"},
              labels={"noattrcheck": True,
                      "site_requires": {"self.decorator": ["call_star() is args", "call_dstar() is kwargs", "call_nargs() == 1"]}},
              post=["callcount('env.fncall') == 1", "result is last_result('env.fncall')"],
              xpost=["raised_by('env.fncall')"]))   # a forwarding wrapper raises only what the wrapped callable raised

    reg.add(C(DE + "AsyncProxyDecorator._call_pure", modifies="*",
              calls={"self.fn": "env.fncall", "self.asyncio": "env.fncall"},
              labels={"noattrcheck": True,
                      "site_requires": {"self.fn": ["call_star() is args", "call_dstar() is kwargs", "call_nargs() == 1"],
                                        "self.asyncio": ["call_star() is args", "call_dstar() is kwargs", "call_nargs() == 1"]}},
              post=["callcount('env.fncall') == 1", "result is last_result('env.fncall')"],
              xpost=["raised_by('env.fncall')"]))   # a forwarding wrapper raises only what the wrapped callable raised
    reg.add(C(DE + "AsyncAndSyncPairProxyDecorator.__call__", modifies="*",
              calls={"self.sync_fn": "env.fncall"},
              labels={"noattrcheck": True,
                      "site_requires": {"self.sync_fn": ["call_star() is args", "call_dstar() is kwargs", "call_nargs() == 1"]}},
              post=["callcount('env.fncall') == 1", "result is last_result('env.fncall')"],
              xpost=["raised_by('env.fncall')"]))   # a forwarding wrapper raises only what the wrapped callable raised

    reg.add(C(DE + "AsyncWrapper._call_async", modifies="*",
              calls={"self.wrapper_fn": "env.fncall"},
              labels={"noattrcheck": True,
                      "site_requires": {"self.wrapper_fn": ["call_star() is args", "call_dstar() is kwargs", "call_nargs() == 1"]}},
              post=["callcount('env.fncall') == 1", "result is last_result('env.fncall')"],
              xpost=["raised_by('env.fncall')"]))   # a forwarding wrapper raises only what the wrapped callable raised
    reg.add(C(DE + "AsyncWrapper.asynq", modifies="*",
              labels={"site_requires": {"self._call_async": ["call_arg(1) is args", "call_arg(2) is kwargs"]}},
              post=["result is last_result('" + DE + "AsyncWrapper._call_async')"], xpost=["True"]))

    # ---- mock wrappers (C19) ------------------------------------------------------------------------------
    reg.add(C("mock_._AsynqWrapper.__call__", modifies="*",
              calls={"self._mock_fn": "env.fncall"},
              labels={"noattrcheck": True,
                      "site_requires": {"self._mock_fn": ["call_star() is args", "call_dstar() is kwargs", "call_nargs() == 1"]},
                      "site_assumes_after": {"self._mock_fn": ["last_result('env.fncall') is not _none"]},
                      ("post", 1): "asynq-of-a-mock-is-a-constant-future-of-the-mock-result"},
              post=["callcount('env.fncall') == 1", "exact(result, ConstFuture) and computed(result)"],
              xpost=["True"]))
    register_asyncio(reg, repo)
    register_more(reg, repo)
    register_patch(reg, repo)
    for cls in ("_AsynqWrapper", "_AsyncioWrapper"):
        reg.add(C("mock_.%s.__setattr__" % cls, modifies=[], post=["False"], xpost=["isinstance(exc, TypeError)"]))
        reg.add(C("mock_.%s.__getattr__" % cls, modifies=[], post=["False"], xpost=["isinstance(exc, TypeError)"]))


def register_asyncio(reg, repo):
    """C15: asynq_to_async.py and the asyncio driver in decorators.convert_asynq_to_async."""
    import z3
    from pyvc import smt
    A = "asynq_to_async."
    reg.extra_classes.setdefault("Awaitable", ["object"])
    reg.extra_classes.setdefault("asyncio_Task", ["object"])
    CV = "_asyncio_mode.cv_value"

    # the asyncio-mode flag is restored by every complete operation (set/reset are paired by AsyncioMode)
    def ts_cv(eng, old, new, skip=()):
        if "cv" in skip:
            return []
        m = smt.const("glob:_asyncio_mode")
        return [new.sel("cv_value", m) == old.sel("cv_value", m)]
    reg.two_state_hooks.append(ts_cv)

    reg.add(C("env.ctxvar.get", params=["self"], kind="method", modifies=[], trusted=True, post=["result is self.cv_value"], xpost=None))
    reg.add(C("env.ctxvar.set", params=["self", "value"], kind="method", modifies=["cv_value", "tok_old", "$alloc"], trusted=True,
              post=["self.cv_value is value", "fresh(result)", "result.tok_old is old(self.cv_value)", "truthy(result)",
                    "only(self, 'cv_value')", "only(result, 'tok_old')", "not isinstance(result, FutureBase)"],
              xpost=None, labels={"keeps_inv": True}, note="ContextVar.set returns a token remembering the previous value"))
    reg.add(C("env.ctxvar.reset", params=["self", "token"], kind="method", modifies=["cv_value"], trusted=True,
              post=["self.cv_value is old(token.tok_old)", "only(self, 'cv_value')"], xpost=None, labels={"keeps_inv": True}))
    c = reg.contracts["asynq_to_async.is_asyncio_mode"]
    c.trusted = False
    c.post = ["result is " + CV]
    c.calls = {"_asyncio_mode.get": "env.ctxvar.get"}
    c.labels["noattrcheck"] = True

    reg.add(C(A + "AsyncioMode.__enter__", modifies=["cv_value", "tok_old", "$alloc", "_token"],
              calls={"_asyncio_mode.set": "env.ctxvar.set"}, labels={"noattrcheck": True, "ts_skip": ("cv",)},
              requires=["not isinstance(self, FutureBase)"],
              post=["truthy(" + CV + ")", "self._token.tok_old is old(" + CV + ")", "truthy(self._token)"], xpost=None))
    reg.add(C(A + "AsyncioMode.__exit__", modifies=["cv_value"],
              calls={"_asyncio_mode.reset": "env.ctxvar.reset"}, labels={"noattrcheck": True, "ts_skip": ("cv",),
                                                                         ("post", 0): "flag-restored-on-exit"},
              post=["implies(old(truthy(self._token)), " + CV + " is old(self._token.tok_old))", "not truthy(result)"], xpost=None))

    reg.add(C("env.await", params=["aw"], modifies="*", trusted=True, post=["None.$last_await is result"], xpost=["isinstance(exc, BaseException)"],
              note="`await x`: the event loop runs other coroutines (E1/E2); resumed with x's result or x's exception"))
    reg.add(C("env.asyncio.ensure_future", params=["aw"], modifies=["$alloc", "$b_done", "aw_of"], trusted=True,
              post=["fresh(result)", "exact(result, asyncio_Task)", "result.aw_of is aw", "not result.$b_done",
                    "only(result, '$b_done', 'aw_of')"], xpost=None, labels={"keeps_inv": True}))
    reg.add(C("env.asyncio.wait_all", params=["tasks", "return_when"], modifies=["$alloc"], trusted=True,
              post=["result is waitall(tasks)"], xpost=None, labels={"keeps_inv": True},
              note="asyncio.wait(tasks, return_when=ALL_COMPLETED) builds the awaitable; awaiting it completes every task"))
    reg.pyfuncs["waitall"] = lambda env, t: z3.Function("waitall", smt.V, smt.V)(t)
    reg.add(C("env.asyncio.task.exception", params=["self"], kind="method", modifies=[], trusted=True,
              requires=["self.$b_done"], post=[], xpost=None))
    reg.add(C("env.asyncio.task.result", params=["self"], kind="method", modifies=[], trusted=True,
              requires=["self.$b_done"], post=["result is self.task_result"], xpost=["exc is self.task_exc"]))

    KEEP_MODE = ["_with1._token is old(_with1._token)", "_with1._token.tok_old is old(_with1._token.tok_old)"]
    reg.add(C("env.coro", params=["*args", "**kwargs"], modifies=["$alloc"], trusted=True, post=["alloc(result)"], xpost=None,
              labels={"keeps_inv": True}, note="calling an async function only creates the coroutine object"))
    reg.add(C("env.usergen.throw", params=["gen", "*a"], kind="method", modifies="*", trusted=True, post=[], xpost=["True"]))
    reg.add(C("decorators.convert_asynq_to_async.wrapped", modifies="*", ghost_locals={"fn": None},
              calls={"asyncio.current_task": "env.diag", "fn": "env.fncall", "generator.send": "env.usergen.send",
                     "generator.throw": "env.usergen.throw", "resolve_awaitables": "env.coro"},
              types={"exception": None, "exc": None},
              requires=["not truthy(" + CV + ") or truthy(" + CV + ")"],
              labels={"noattrcheck": True,
                      # E1: the user's generator / awaited coroutines do not touch this coroutine's AsyncioMode object
                      "site_assumes_after": {"generator.send": KEEP_MODE, "generator.throw": KEEP_MODE, "await": KEEP_MODE, "fn": KEEP_MODE},
                      "site_requires": {"generator.send": ["send is None or send is None.$last_await"]},
                      ("post", 0): "asyncio-mode-flag-restored", ("xpost", 0): "asyncio-mode-flag-restored-on-failure"},
              post=[CV + " is old(" + CV + ")"],
              xpost=[CV + " is old(" + CV + ")"],
              invariants={1: ["inv()", "two_state('old', 'cv')", "truthy(" + CV + ")", "truthy(_with1._token)",
                              "_with1._token.tok_old is old(" + CV + ")", "exact(_with1, AsyncioMode)",
                              "send is None or send is None.$last_await or exception is not None"]},
              note="generator case of convert_asynq_to_async: the flag set on entry is reset on every exit (return through StopIteration / "
                   "AsyncTaskResult, exception); each step sends the awaited result of the previous yield"))
    reg.add(C("decorators.convert_asynq_to_async.wrapped#2", modifies="*", ghost_locals={"fn": None},
              calls={"fn": "env.fncall"},
              labels={"noattrcheck": True, "site_assumes_after": {"fn": KEEP_MODE}},
              post=[CV + " is old(" + CV + ")", "callcount('env.fncall') == 1", "result is last_result('env.fncall')"],
              xpost=[CV + " is old(" + CV + ")"]))
    DONE_ALL = "all(tasks[k].$b_done for k in range(0, len(tasks)))"
    reg.add(C(A + "_gather", modifies="*", types={"awaitables": "list", "tasks": "list", "tasks[]": "asyncio_Task", "task": "asyncio_Task"},
              calls={"asyncio.ensure_future": "env.asyncio.ensure_future", "asyncio.wait": "env.asyncio.wait_all",
                     "task.exception": "env.asyncio.task.exception", "task.result": "env.asyncio.task.result"},
              labels={"noattrcheck": True,
                      # awaiting asyncio.wait(tasks, ALL_COMPLETED) completes every task and leaves the local list alone
                      "site_assumes_after": {"await": ["exact(tasks, list)", "len(tasks) == old(len(tasks))",
                                                       "all(tasks[k] is old(tasks[k]) for k in range(0, len(tasks)))",
                                                       "all(tasks[k].$b_done for k in range(0, len(tasks)))"]},
                      "loop_mutates": {1: ["_c1"], 3: ["_c3"]},
                      ("post", 0): "one-result-per-awaitable-in-order"},
              post=["exact(result, list)", "implies(old(len(awaitables)) > 0, len(result) == old(len(awaitables)))"],
              xpost=["True"],
              invariants={
                  1: ["exact(_c1, list)", "fresh(_c1)", "len(_c1) == int(_i1)", "int(_i1) <= len(awaitables)", "_it1 is awaitables", "len(awaitables) == old(len(awaitables))",
                      "all(exact(_c1[k], asyncio_Task) and alloc(_c1[k]) for k in range(0, len(_c1)))", "inv()", "two_state('old')"],
                  2: ["_it2 is tasks", "exact(tasks, list)", "len(tasks) == old(len(awaitables))", DONE_ALL,
                      "all(exact(tasks[k], asyncio_Task) for k in range(0, len(tasks)))", "inv()", "two_state('old')"],
                  3: ["exact(_c3, list)", "fresh(_c3)", "len(_c3) == int(_i3)", "int(_i3) <= len(tasks)", "_it3 is tasks", "exact(tasks, list)",
                      "len(tasks) == old(len(awaitables))", DONE_ALL,
                      "all(exact(tasks[k], asyncio_Task) for k in range(0, len(tasks)))", "inv()", "two_state('old')"]},
              note="results are read (task.result requires done) only after awaiting ALL_COMPLETED"))


def register_more(reg, repo):
    """Second batch (C09/C19): rebinding of the sync_fn pair, mock replacement wrapping."""
    DE = "decorators."
    # qcore.decorators.decorate(Cls, *args) builds a decorator factory; applying it to fn constructs Cls(fn, *args)
    reg.add(C("env.decorate", params=["cls", "*args"], modifies=["$alloc"], trusted=True, labels={"keeps_inv": True},
              post=["alloc(result)"], xpost=None, note="qcore.decorators.decorate(cls, *args): factory, no effect"))
    reg.add(C("env.decorate.apply", params=["factory", "fn"], kind="callvalue", modifies="*", trusted=True,
              post=["alloc(result)"], xpost=["True"], note="factory(fn) -> cls(fn, *args)"))
    reg.add(C("env.descr.get", params=["self", "owner", "cls"], kind="method", modifies=["$alloc"], trusted=True, labels={"keeps_inv": True},
              post=["alloc(result)"], xpost=None, note="descriptor __get__ of sync_fn (function / staticmethod / classmethod binding)"))
    reg.add(C("env.base.get", params=["self", "owner", "cls"], modifies=["$alloc"], trusted=True, labels={"keeps_inv": True},
              post=["alloc(result)"], xpost=None,
              note="qcore DecoratorBase.__get__: static -> the decorator itself; else binder_cls(decorator, cls or owner) (shipped source)"))
    reg.add(C("env.typecall", params=["tp", "fn"], kind="callvalue", modifies=["$alloc"], trusted=True, labels={"keeps_inv": True},
              post=["alloc(result)", "result is wrapped_by(tp, fn)"], xpost=None, note="staticmethod(fn) / classmethod(fn)"))
    import z3
    from pyvc import smt
    reg.pyfuncs["wrapped_by"] = lambda env, tp, fn: z3.Function("wrapped_by", smt.V, smt.V, smt.V)(tp, fn)
    DEC = "qcore.decorators.decorate(AsyncAndSyncPairDecorator, self.task_cls, sync_fn, self.kwargs, self.asyncio_fn)"
    reg.add(C(DE + "AsyncAndSyncPairDecorator.__get__", modifies="*",
              calls={"self.sync_fn.__get__": "env.descr.get", "self.type": "env.typecall", "qcore.decorators.decorate": "env.decorate",
                     DEC: "env.decorate.apply", "AsyncDecorator.__get__": "env.base.get"},
              labels={"noattrcheck": True,
                      "site_requires": {
                          "self.sync_fn.__get__": ["call_arg(1) is owner", "call_arg(2) is cls"],
                          "qcore.decorators.decorate": ["call_arg(1) is self.task_cls", "call_arg(2) is sync_fn", "call_arg(3) is self.kwargs",
                                                        "call_arg(4) is self.asyncio_fn"],
                          DEC: ["implies(self.type is staticmethod or self.type is classmethod, call_arg(1) is wrapped_by(self.type, self.fn))",
                                "implies(not (self.type is staticmethod or self.type is classmethod), call_arg(1) is self.fn)"],
                          "AsyncDecorator.__get__": ["call_arg(0) is new_self", "call_arg(1) is owner", "call_arg(2) is cls"]},
                      ("post", 0): "rebinds-sync_fn-and-rewraps-static-and-class-methods"},
              post=["callcount('env.descr.get') == 1 and callcount('env.decorate.apply') == 1 and callcount('env.base.get') == 1",
                    "retval is last_result('env.base.get')"],
              xpost=["True"]))

    # ---- mock_._maybe_wrap_new ---------------------------------------------------------------------------------------
    reg.global_values[("mock", "DEFAULT")] = lambda eng: smt.const("glob:mock.DEFAULT")
    reg.global_values["mock.DEFAULT"] = lambda eng: smt.const("glob:mock.DEFAULT")
    reg.add(C("env.inspect.isfunction", params=["x"], modifies=[], trusted=True, pure_fn="isfunction", post=["result == isinstance(x, function)"],
              xpost=None, returns_type="bool"))
    reg.add(C("env.asynq.factory", params=["**kwargs"], modifies=["$alloc"], trusted=True, labels={"keeps_inv": True}, post=["alloc(result)"], xpost=None))
    reg.add(C("env.setattr.probe", params=["obj"], modifies=[], trusted=True, post=[], xpost=["isinstance(exc, AttributeError) or isinstance(exc, TypeError)"],
              note="`new._maybe_wrap_new_test_attribute = None; del ...`: succeeds iff the object accepts attributes"))
    reg.add(C("mock_._maybe_wrap_new", modifies="*",
              calls={"inspect.isfunction": "env.inspect.isfunction", "asynq": "env.asynq.factory", "asynq(sync_fn=new)": "env.decorate.apply"},
              labels={"noattrcheck": True,
                      "site_requires": {"asynq(sync_fn=new)": ["call_arg(1) is new"], "asynq": ["call_kw('sync_fn') is new"]},
                      ("post", 0): "default-passes-through", ("post", 2): "non-callable-installed-as-is",
                      ("post", 3): "attribute-refusing-callable-is-wrapped-in-a-callable-object-not-a-function"},
              post=["implies(new is mock_DEFAULT(), retval is new)",
                    "implies(new is not mock_DEFAULT() and (isinstance(new, function) or isinstance(new, classmethod) or isinstance(new, staticmethod)), "
                    "callcount('env.decorate.apply') == 1 and retval is last_result('env.decorate.apply'))",
                    "implies(new is not mock_DEFAULT() and not (isinstance(new, function) or isinstance(new, classmethod) or isinstance(new, staticmethod)) "
                    "and not is_callable(new), retval is new)",
                    "retval is new or callcount('env.decorate.apply') == 1 or (not isinstance(retval, function) and fresh(retval))"],
              xpost=["True"]))
    reg.pyfuncs["mock_DEFAULT"] = lambda env: smt.const("glob:mock.DEFAULT")
    from pyvc.calls import CALLABLE
    reg.pyfuncs["is_callable"] = lambda env, x: CALLABLE(x)


def register_patch(reg, repo):
    """C19: _PatchAsync.__enter__ attaches wrappers OF THE RETURNED REPLACEMENT ITSELF."""
    reg.add(C("_patch.__enter__", params=["self"], kind="method", modifies="*", trusted=True, post=["alloc(result)"], xpost=["True"],
              note="unittest.mock._patch.__enter__: installs and returns the replacement (trusted)"))
    for cls in ("_AsynqWrapper", "_AsyncioWrapper"):
        reg.add(C("mock_.%s.__init__" % cls, modifies=["_mock_fn"], calls={"object.__setattr__": "env.object.setattr"},
                  labels={"noattrcheck": True},
                  post=["self._mock_fn is mock_fn", "only(self, '_mock_fn')"], xpost=None, two_state=False))
    reg.add(C("env.object.setattr", params=["obj", "name", "value"], modifies=["_mock_fn"], trusted=True,
              post=["updated('_mock_fn', obj, value)"], xpost=None, note="object.__setattr__(self, '_mock_fn', v)"))
    reg.add(C("mock_._PatchAsync.__enter__", modifies="*",
              labels={"noattrcheck": True,
                      "site_assumes_after": {},
                      ("post", 1): "asynq-wrapper-forwards-to-the-returned-replacement",
                      ("post", 2): "async-alias-is-the-same-wrapper", ("post", 3): "asyncio-wrapper-forwards-to-the-returned-replacement"},
              post=["retval is last_result('_patch.__enter__')",
                    "implies(is_callable(retval), exact(retval.asynq, _AsynqWrapper) and retval.asynq._mock_fn is retval)",
                    "implies(is_callable(retval), field(retval, 'async') is retval.asynq)",
                    "implies(is_callable(retval), exact(retval.asyncio, _AsyncioWrapper) and retval.asyncio._mock_fn is retval)"],
              xpost=["True"]))
