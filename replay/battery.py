"""Run the whole scenario battery of one property against the real code (bounded stand-in)."""
import json, os, sys, time, traceback, io, contextlib
sys.path.insert(0, os.path.dirname(os.path.abspath(__file__)))
import scenarios
pid = sys.argv[1]
out = {"name": "scenarios", "bound": "fixed battery of small programs with statement-level oracles (see replay/sc_*.py)",
       "cases": 0, "violations": [], "scenarios": []}
for sc in scenarios.all_for_property(pid):
    t0 = time.time()
    buf = io.StringIO()
    try:
        with contextlib.redirect_stdout(buf):
            r = sc({"property": pid, "model": {}, "path": []})
    except BaseException:
        r = {"what": "scenario crashed (unexpected exception escaping the real code)", "traceback": traceback.format_exc()[-1500:]}
    out["cases"] += 1
    out["scenarios"].append({"scenario": sc.__name__, "ok": not r, "seconds": round(time.time() - t0, 2)})
    if r:
        r = dict(r)
        r["name"] = "bounded:scenario:" + sc.__name__
        r["doc"] = (sc.__doc__ or "").strip()
        out["violations"].append(r)
print(json.dumps(out, default=str))
