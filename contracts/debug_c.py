"""Contracts for asynq/debug.py diagnostics (used as callees everywhere; the
bodies are verified for totality under C18)."""
from pyvc.contract import Contract as C


def register(reg, repo):
    # total, effect-free on the asynq heap (they write to stdout/stderr only)
    reg.add(C("debug.write", modifies=[], post=[], xpost=None, trusted=True,
              note="debug.write: stdout only (body checked under C18)"))
    reg.add(C("debug.str", modifies=[], post=[], xpost=None, returns_type="str", trusted=True,
              note="debug.str -> qcore.safe_str: total; user __str__ assumed effect-free on asynq state"))
    reg.add(C("debug.repr", modifies=[], post=[], xpost=None, returns_type="str", trusted=True,
              note="debug.repr -> qcore.safe_repr: total"))
    reg.add(C("debug.dump_stack", modifies=[], post=[], xpost=None, trusted=True))
    reg.add(C("debug.dump_error", modifies=[], post=[], xpost=None, trusted=True))
    reg.add(C("debug.dump", modifies=[], post=[], xpost=None, trusted=True,
              note="debug.dump(state): calls state.dump(); diagnostic only"))
    reg.add(C("debug.get_frame", modifies=[], post=[], xpost=None, trusted=True, pure_fn="get_frame"))
