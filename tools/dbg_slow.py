# dev helper (see header of tools/mutcheck.py): times / dumps obligations of one function; run with PYTHONPATH=/verif python3-vt
import sys, time
sys.path.insert(0, "/verif")
from pyvc import verify
qual, name = sys.argv[1], sys.argv[2]
res = verify.generate((qual, "/repo"))
for ob in res["obligations"]:
    if ob["name"].endswith(name):
        t0 = time.time()
        r = verify.solve((ob["text"], ob["nparts"], 10, ob["expect_sat"], False, ob["rtext"]))
        dt = time.time() - t0
        if dt > 3:
            print(round(dt, 1), r["status"], r.get("backend"), ob["trace"])
