#!/usr/bin/env python3
"""Generate MANIFEST.json from props.PROPERTIES + manifest_meta.py (kept valid at all times)."""
import json, os, sys
HERE = os.path.dirname(os.path.dirname(os.path.abspath(__file__)))
sys.path.insert(0, HERE)
import props
import manifest_meta as mm

checks = []
for pid in sorted(props.PROPERTIES):
    meta = mm.META[pid]
    checks.append({
        "property_id": pid,
        "quick_cmd": "./check %s --tier quick" % pid,
        "thorough_cmd": "./check %s --tier thorough" % pid,
        "evidence_file": "/verif/evidence/%s.json" % pid,
        "replay_cmd_template": "./check %s --replay {path}" % pid,
        "engine": "pyvc",
        "level_claimed": {"category": "proof", "text": meta["text"], "design_ref": meta["design_ref"]},
        "level_note": meta["note"],
        "technique": meta.get("technique", "contract-based deductive verification: VCs generated from the real AST against sidecar contracts, discharged by z3/cvc5"),
    })
na = [{"property_id": p, "reason": r} for p, r in sorted(mm.NOT_APPLICABLE.items()) if p not in props.PROPERTIES]
m = {
    "version": 1,
    "setup_cmd": "python3-vt -c 'import z3, sys; sys.path.insert(0, \"/verif\"); import pyvc.verify, props; print(\"pyvc ready, z3\", z3.get_version_string())'",
    "hooks": {
        "guard": "ASYNQ_VERIF",
        "enable": "none needed: contracts are sidecar files under /verif/contracts keyed by qualified function name; ghost state lives in environment contracts; no hook commits in /repo",
        "baseline_off_cmd": "cd /repo && /venv/bin/python -m pytest -ra -q -p no:cacheprovider --timeout=900 --continue-on-collection-errors",
        "source_commits": mm.HOOK_COMMITS,
        "add_only": True,
    },
    "engines": [{"name": "pyvc", "path": "/verif/pyvc", "serves_properties": sorted(props.PROPERTIES),
                 "kind_free_text": "AST -> verification-condition generator for Python (symbolic execution with contracts, loop invariants, exceptions, heap arrays) discharging to z3 5.1 with cvc5 cross-check; replays counter-models on a scratch pure-Python copy of the working tree"}],
    "checks": checks,
    "not_applicable": na,
    "notes": mm.NOTES,
}
json.dump(m, open(os.path.join(HERE, "MANIFEST.json"), "w"), indent=1)
print("MANIFEST.json: %d checks, %d not_applicable" % (len(checks), len(na)))
