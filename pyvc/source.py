"""Extraction of the real source: functions by qualified name, class hierarchy,
.pxd field/parameter C types.  Re-read from the working tree on every run."""
import ast
import hashlib
import os
import re

REPO = os.environ.get("ASYNQ_VERIF_REPO", "/repo")


class Module:
    def __init__(self, name, path):
        self.name = name
        self.path = path
        with open(path) as f:
            self.text = f.read()
        self.sha256 = hashlib.sha256(self.text.encode()).hexdigest()
        self.tree = ast.parse(self.text, filename=path)
        self.functions = {}   # qualname -> ast.FunctionDef/AsyncFunctionDef
        self.classes = {}     # class name -> ast.ClassDef
        self.owner = {}       # qualname -> class name or None
        self.aliases = {}     # local name -> dotted import target
        self._index(self.tree.body, "", None)
        self._imports()

    def _index(self, body, prefix, cls):
        for node in body:
            if isinstance(node, (ast.FunctionDef, ast.AsyncFunctionDef)):
                q = prefix + node.name
                # later definitions of the same name (if/else branches) get #n
                if q in self.functions:
                    n = 2
                    while "%s#%d" % (q, n) in self.functions:
                        n += 1
                    q = "%s#%d" % (q, n)
                self.functions[q] = node
                self.owner[q] = cls
                self._index(node.body, q + ".", None)
            elif isinstance(node, ast.ClassDef):
                self.classes[node.name] = node
                self._index(node.body, prefix + node.name + ".", node.name)
            elif isinstance(node, (ast.If, ast.Try, ast.With, ast.For, ast.While)):
                for fld in ("body", "orelse", "finalbody"):
                    self._index(getattr(node, fld, []) or [], prefix, cls)
                for h in getattr(node, "handlers", []) or []:
                    self._index(h.body, prefix, cls)

    def _imports(self):
        for node in ast.walk(self.tree):
            if isinstance(node, ast.Import):
                for a in node.names:
                    self.aliases[a.asname or a.name.split(".")[0]] = a.name if a.asname else a.name.split(".")[0]
            elif isinstance(node, ast.ImportFrom):
                mod = ("." * node.level) + (node.module or "")
                for a in node.names:
                    self.aliases[a.asname or a.name] = mod + "." + a.name if mod else a.name
        # simple module-level aliases  x = a.b
        for node in self.tree.body:
            if isinstance(node, ast.Assign) and len(node.targets) == 1 and isinstance(node.targets[0], ast.Name):
                try:
                    self.aliases.setdefault("=" + node.targets[0].id, ast.unparse(node.value))
                except Exception:
                    pass


_PXD_CLASS = re.compile(r"^cdef class (\w+)")
_PXD_FIELD = re.compile(r"^\s+cdef (?:public |readonly )?([\w\.]+(?: long)?)\s+(\w+)\s*$")
_PXD_METH = re.compile(r"^\s+c?p?def (?:inline )?(?:[\w\.]+ )?(\w+)\((.*)\)")


class Pxd:
    def __init__(self, path):
        self.fields = {}    # (cls, field) -> ctype
        self.params = {}    # (cls, method) -> {param: ctype}
        self.sha256 = None
        if not os.path.exists(path):
            return
        text = open(path).read()
        self.sha256 = hashlib.sha256(text.encode()).hexdigest()
        cur = None
        for line in text.splitlines():
            m = _PXD_CLASS.match(line)
            if m:
                cur = m.group(1)
                continue
            if line and not line[0].isspace():
                cur = None
            if cur is None:
                continue
            m = _PXD_FIELD.match(line)
            if m and "(" not in line:
                self.fields[(cur, m.group(2))] = m.group(1)
                continue
            m = _PXD_METH.match(line)
            if m:
                ps = {}
                for p in m.group(2).split(","):
                    p = p.strip().replace("=?", "")
                    bits = p.split()
                    if len(bits) >= 2:
                        ps[bits[-1]] = " ".join(bits[:-1])
                self.params[(cur, m.group(1))] = ps


class Repo:
    MODULES = ["futures", "batching", "scheduler", "async_task", "contexts", "scoped_value",
               "utils", "tools", "generator", "decorators", "asynq_to_async", "debug", "_debug",
               "mock_", "profiler"]

    def __init__(self, root=None):
        self.root = root or REPO
        self.modules = {}
        self.pxd = {}
        for m in self.MODULES:
            p = os.path.join(self.root, "asynq", m + ".py")
            if os.path.exists(p):
                self.modules[m] = Module(m, p)
                self.pxd[m] = Pxd(os.path.join(self.root, "asynq", m + ".pxd"))

    def function(self, qual):
        """qual = 'module.Qual.name' -> (Module, FunctionDef) or None."""
        mod, _, rest = qual.partition(".")
        m = self.modules.get(mod)
        if m is None:
            return None
        f = m.functions.get(rest)
        if f is None and "!" in rest:
            # 'module.func!variant': a second contract on the body of module.func
            f = m.functions.get(rest.split("!", 1)[0])
        if f is None:
            return None
        return m, f

    def class_bases(self):
        """class name -> list of base class names (last dotted component)."""
        out = {}
        for m in self.modules.values():
            for name, node in m.classes.items():
                bases = []
                for b in node.bases:
                    try:
                        s = ast.unparse(b)
                    except Exception:
                        continue
                    bases.append(s.split(".")[-1])
                out[name] = bases or ["object"]
        return out

    def class_module(self, cls):
        for m in self.modules.values():
            if cls in m.classes:
                return m.name
        return None

    def method_owner(self, cls, meth):
        """Resolve a method along the (single-inheritance linearised) MRO within
        the repo: returns 'module.Class.meth' or None."""
        bases = self.class_bases()
        seen, todo = set(), [cls]
        while todo:
            c = todo.pop(0)
            if c in seen:
                continue
            seen.add(c)
            mod = self.class_module(c)
            if mod and (c + "." + meth) in self.modules[mod].functions:
                return "%s.%s.%s" % (mod, c, meth)
            todo.extend(bases.get(c, []))
        return None

    def class_fields(self, cls):
        """Attribute names a class (or its repo bases) defines: assigned to
        self.<name> in any of its methods, class-level names, methods, .pxd fields."""
        bases = self.class_bases()
        names = set()
        seen, todo = set(), [cls]
        while todo:
            c = todo.pop(0)
            if c in seen:
                continue
            seen.add(c)
            mod = self.class_module(c)
            if not mod:
                continue
            node = self.modules[mod].classes[c]
            for n in ast.walk(node):
                if isinstance(n, ast.Attribute) and isinstance(n.ctx, ast.Store) and isinstance(n.value, ast.Name) and n.value.id == "self":
                    names.add(n.attr)
                if isinstance(n, ast.Call) and isinstance(n.func, ast.Attribute) and n.func.attr == "__setattr__":
                    if len(n.args) >= 2 and isinstance(n.args[1], ast.Constant):
                        names.add(n.args[1].value)
            for n in node.body:
                if isinstance(n, (ast.FunctionDef, ast.AsyncFunctionDef)):
                    names.add(n.name)
                elif isinstance(n, ast.Assign):
                    for t in n.targets:
                        if isinstance(t, ast.Name):
                            names.add(t.id)
                elif isinstance(n, ast.AnnAssign) and isinstance(n.target, ast.Name):
                    names.add(n.target.id)
            for (pc, pf) in self.pxd.get(mod, Pxd("/nonexistent")).fields:
                if pc == c:
                    names.add(pf)
            todo.extend(bases.get(c, []))
        return names, seen

    def pxd_field_type(self, cls, field):
        bases = self.class_bases()
        seen, todo = set(), [cls]
        while todo:
            c = todo.pop(0)
            if c in seen:
                continue
            seen.add(c)
            mod = self.class_module(c)
            if mod:
                t = self.pxd[mod].fields.get((c, field))
                if t:
                    return t
            todo.extend(bases.get(c, []))
        return None
