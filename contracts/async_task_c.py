"""Contracts for asynq/async_task.py (C01-C03 step contracts, C06/C07 context loops, C10 task completion)."""
import z3
from pyvc import smt
from pyvc.smt import V, NONE, NONE_MARK
from pyvc.state import fresh_name
from pyvc.contract import Contract as C
from .futures_c import FRESH, NOTIF, FROZEN, KEEP

T = "async_task.AsyncTask."


def q(n):
    return z3.Const(fresh_name(n), V)


TASK_FIELDS = ["fn", "args", "kwargs", "iteration_index", "_generator", "_frame", "_last_value", "_dependencies",
               "_contexts", "_contexts_active", "_dependencies_scheduled", "_total_time", "_name", "perf_stats",
               "creator", "running", "_id"]


_late = []


def register(reg, repo):
    reg.elem_types[("AsyncTask", "_dependencies")] = "FutureBase"
    reg.field_types[("AsyncTask", "_contexts")] = "OrderedDict"
    reg.field_types[("AsyncTask", "creator")] = "AsyncTask"
    reg.field_types[("AsyncTaskResult", "result")] = None

    # a task's step state is untouched (E4: unknown code does not advance it)
    reg.macro("wellformed_exc", ["e"],
              "implies(isinstance(e, StopIteration), e.value is not _none) and "
              "implies(isinstance(e, AsyncTaskResult), e.result is not _none)")
    reg.macro("task_frozen", ["t"],
              "t.iteration_index is old(t.iteration_index) and t._generator is old(t._generator) and "
              "t._last_value is old(t._last_value) and t._dependencies is old(t._dependencies) and "
              "len(t._dependencies) == old(len(t._dependencies)) and "
              "all(t._dependencies[j] is old(t._dependencies[j]) for j in range(0, len(t._dependencies))) and "
              "t._contexts_active == old(t._contexts_active) and t._dependencies_scheduled == old(t._dependencies_scheduled) and "
              "t._contexts is old(t._contexts)")

    # ---- I-Task ---------------------------------------------------------------------------------------
    def inv_task(eng, heap):
        t = q("t!inv")
        j = z3.Int(fresh_name("j!inv"))
        g = z3.And(heap.sel("$alloc", t), eng.isinstance_f(t, [eng.ct.cls("AsyncTask")]))
        dl = heap.sel("_dependencies", t)
        el = z3.Select(heap.sel("$litem", dl), j)
        s = q("s!inv")
        gs = z3.And(heap.sel("$alloc", s), eng.isinstance_f(s, [eng.ct.cls("TaskScheduler")]))
        b = q("b!inv")
        gb = z3.And(heap.sel("$alloc", b), eng.isinstance_f(b, [eng.ct.cls("BatchBase")]))
        t2 = q("t2!inv")
        g2 = z3.And(heap.sel("$alloc", t2), eng.isinstance_f(t2, [eng.ct.cls("AsyncTask")]))
        return [
            # dependencies are futures
            smt.forall([t, j], z3.Implies(z3.And(g, 0 <= j, j < heap.sel("$llen", dl)),
                                         z3.And(heap.sel("$alloc", el), eng.isinstance_f(el, [eng.ct.cls("FutureBase")]))),
                      patterns=[z3.Select(heap.sel("$litem", heap.sel("_dependencies", t)), j)]),
            # an announced task is finished: generator closed, nothing pending
            smt.forall([t], z3.Implies(z3.And(g, heap.sel("$n_notified", t) >= 1),
                                      z3.And(heap.sel("_generator", t) == NONE, heap.sel("$llen", dl) == 0,
                                             heap.sel("_last_value", t) == NONE)),
                      patterns=[heap.sel("_generator", t)]),
            # ownership of the dependency list
            smt.forall([t, s], z3.Implies(z3.And(g, gs), dl != heap.sel("_tasks", s)),
                      patterns=[z3.MultiPattern(heap.sel("_dependencies", t), heap.sel("_tasks", s))]),
            smt.forall([t, b], z3.Implies(z3.And(g, gb), dl != heap.sel("items", b)),
                      patterns=[z3.MultiPattern(heap.sel("_dependencies", t), heap.sel("items", b))]),
            smt.forall([t, t2], z3.Implies(z3.And(g, g2, t != t2), dl != heap.sel("_dependencies", t2)),
                      patterns=[z3.MultiPattern(heap.sel("_dependencies", t), heap.sel("_dependencies", t2))]),
        ]
    reg.inv_hooks.append(inv_task)

    # ---- T2: a running generator cannot be resumed; a finished task never runs again ------------------
    def ts_task(eng, old, new, skip=()):
        if "task" in skip:
            return []
        t = q("t!t2")
        g = z3.And(old.sel("$alloc", t), eng.isinstance_f(t, [eng.ct.cls("AsyncTask")]))
        dl = old.sel("_dependencies", t)
        frozen = z3.And(new.sel("iteration_index", t) == old.sel("iteration_index", t),
                        new.sel("_generator", t) == old.sel("_generator", t),
                        new.sel("_last_value", t) == old.sel("_last_value", t),
                        new.sel("_dependencies", t) == dl,
                        new.sel("$llen", dl) == old.sel("$llen", dl),
                        new.sel("$litem", dl) == old.sel("$litem", dl),
                        new.sel("running", t) == old.sel("running", t))
        return [
            smt.forall([t], z3.Implies(g, new.sel("running", t) == old.sel("running", t)),
                      patterns=[new.sel("running", t)]),
            smt.forall([t], z3.Implies(z3.And(g, old.sel("running", t) == smt.TRUE), frozen),
                      patterns=[new.sel("iteration_index", t), new.sel("_generator", t), new.sel("_dependencies", t)]),
            smt.forall([t], z3.Implies(z3.And(g, old.sel("_generator", t) == NONE),
                                      z3.And(new.sel("_generator", t) == NONE,
                                             new.sel("iteration_index", t) == old.sel("iteration_index", t))),
                      patterns=[new.sel("_generator", t)]),
        ]
    reg.two_state_hooks.append(ts_task)

    def fresh_task(eng, st, o, clsname):
        if eng.ct.is_sub(clsname, "AsyncTask"):
            st.heap.store("running", o, smt.FALSE)
            st.heap.store("_generator", o, smt.const("uninit:generator"))
    reg.fresh_hooks.append(fresh_task)

    # ---- the user's generator (environment) -------------------------------------------------------------
    GEN_POST = ["gen.$n_steps == old(gen.$n_steps) + 1"]
    GEN_X = GEN_POST + ["wellformed_exc(exc)"]
    OWNER_KEPT = ("all(implies(old(alloc(t)) and old(t._generator) is gen, computed(t) == old(computed(t))) "
                  "for t in objs(AsyncTask))")
    reg.add(C("env.gen.send", params=["gen", "value"], kind="method", modifies="*", trusted=True,
              requires=["gen is not None"],
              post=GEN_POST + ["result is not _none"], xpost=GEN_X,
              note="generator.send: the task body runs to its next yield / return / raise; it may synchronously "
                   "re-enter the scheduler (E1/E2); ghost $n_steps counts resumptions"))
    reg.add(C("env.gen.throw", params=["gen", "*a"], kind="method", modifies="*", trusted=True,
              requires=["gen is not None"],
              post=GEN_POST + ["result is not _none"], xpost=GEN_X, note="generator.throw(type, value[, tb])"))
    reg.add(C("env.gen.close", params=["gen"], kind="method", modifies="*", trusted=True,
              requires=["gen is not None"], post=[OWNER_KEPT], xpost=[OWNER_KEPT, "isinstance(exc, Exception)"],
              note="generator.close(): finally/with blocks of the body run and may raise any Exception (BaseException from cleanup code is "
                   "treated as fatal and not modelled); assumed not to complete the task that owns the generator"))
    reg.add(C("env.ctx.pause", params=["ctx"], kind="method", modifies="*", trusted=True,
              post=["ctx.$n_pause == old(ctx.$n_pause) + 1",
                    "all(implies(old(alloc(t)), task_frozen(t)) for t in objs(AsyncTask))"],
              xpost=["ctx.$n_pause == old(ctx.$n_pause) + 1",
                     "all(implies(old(alloc(t)), task_frozen(t)) for t in objs(AsyncTask))"],
              note="user context hook: may raise anything; E4'': does not advance pre-existing tasks"))
    reg.add(C("env.ctx.resume", params=["ctx"], kind="method", modifies="*", trusted=True,
              post=["ctx.$n_resume == old(ctx.$n_resume) + 1",
                    "all(implies(old(alloc(t)), task_frozen(t)) for t in objs(AsyncTask))"],
              xpost=["ctx.$n_resume == old(ctx.$n_resume) + 1",
                     "all(implies(old(alloc(t)), task_frozen(t)) for t in objs(AsyncTask))"],
              note="user context hook"))

    reg.add(C("qcore.inspection.is_cython_or_generator", params=["x"], modifies=[], post=[], xpost=None, trusted=True,
              pure_fn="is_cython_or_generator"))
    reg.add(C("qcore.inspection.get_full_name", params=["x"], modifies=[], post=[], xpost=None, trusted=True,
              returns_type="str"))
    reg.add(C("qcore.inspection.get_function_call_str", params=["fn", "args", "kwargs"], modifies=[], post=[], xpost=None,
              trusted=True, returns_type="str"))
    reg.add(C("qcore.helpers.safe_str", params=["x"], modifies=[], post=[], xpost=None, trusted=True, returns_type="str"))

    reg.add(C("scheduler.get_active_task", modifies=[], post=["result is None or isinstance(result, AsyncTask)"],
              xpost=None, returns_type="AsyncTask", trusted=True, note="verified in scheduler_c (module functions)"))
    reg.add(C("scheduler.get_scheduler", modifies=[], post=["isinstance(result, TaskScheduler)", "alloc(result)"],
              xpost=None, returns_type="TaskScheduler", trusted=True))

    # ---- structural helpers (bounded stand-in: see bounded/structures.py) -------------------------------
    reg.add(C("async_task.unwrap", params=["value"], modifies=["$alloc"], trusted=True,
              post=["R_unwrap(value, result)"], xpost=["exc is first_err(value)", "wellformed_exc(exc)"], labels={"keeps_inv": True},
              note="contract of unwrap used by callers; its body is checked by the bounded stand-in "
                   "(all structures to depth 3 / width 3), not proved.  Effect-free because every leaf is computed "
                   "at its only call site (_continue requires not blocked; leaves are dependencies by extract_futures)"))
    reg.add(C("async_task.extract_futures", params=["value", "result"], modifies=["$llen", "$litem"], trusted=True,
              post=["len(result) >= old(len(result))",
                    "all(result[j] is old(result[j]) for j in range(0, old(len(result))))",
                    "all(alloc(result[j]) and isinstance(result[j], FutureBase) for j in range(old(len(result)), len(result)))",
                    "only(result, '$llen', '$litem')",
                    "implies(value is None, len(result) == old(len(result)))"],
              xpost=None,
              note="appends the futures inside `value` (tuple/list members right-to-left, dict values left-to-right); "
                   "body checked by the bounded stand-in"))

    # ---- AsyncTask ------------------------------------------------------------------------------------------
    reg.add(C(T + "__init__", requires=FRESH + ["self.$n_notified == 0"],
              modifies=["_value", "_error", "_in_repr", "on_computed", "$alloc", "counter", "$olen", "$dhas"] + TASK_FIELDS,
              post=["self._value is _none", "self._error is None", "int(self.iteration_index) == 0",
                    "self._generator is generator", "len(self._dependencies) == 0", "fresh(self._dependencies)",
                    "self._last_value is None", "self._contexts_active == False", "self._dependencies_scheduled == False",
                    "self.running == False", "self.fn is fn", "self.args is args", "self.kwargs is kwargs",
                    "olen(self._contexts) == 0", "fresh(self._contexts)",
                    "only(self, '_value', '_error', '_in_repr', 'on_computed', " + ", ".join("'%s'" % f for f in TASK_FIELDS) + ")"],
              xpost=["opt('ENABLE_COMPLEX_ASSERTIONS')", "isinstance(exc, AssertionError)"],
              two_state=False,
              calls={"asynq.scheduler.get_active_task": "scheduler.get_active_task",
                     "core_inspection.is_cython_or_generator": "qcore.inspection.is_cython_or_generator"},
              labels={("post", 2): "created-but-not-started"}))

    reg.add(C(T + "can_continue", modifies=[], post=["result == (self._generator is not None)"], xpost=None,
              returns_type="bool"))

    reg.add(C(T + "is_blocked", modifies=[],
              post=["result == blocked(self)"], xpost=None, returns_type="bool",
              types={"dependency": "FutureBase"},
              invariants={1: ["_it1 is self._dependencies",
                              "all(computed(self._dependencies[j]) for j in range(0, int(_i1)))"]},
              labels={("post", 0): "blocked-iff-some-dependency-uncomputed"}))

    reg.add(C(T + "_compute", modifies="*",
              requires=["not computed(self)", "self.running == False"],
              calls={"asynq.scheduler.get_scheduler": "scheduler.get_scheduler"},
              post=["computed(self)"], xpost=["True"]))

    reg.add(C(T + "_computed", modifies="*",
              requires=["computed(self)", "self.$n_notified == 0", "self.running == False"],
              calls={"self._generator.close": "env.gen.close"},
              post=[NOTIF, FROZEN, "self._generator is None", "len(self._dependencies) == 0", "self._last_value is None"],
              xpost=None,
              labels={"ts_skip": ("notif",)}))
    reg.add(C(T + "to_str!virtual", params=["self"], kind="method", modifies=["_name"], trusted=True, post=[], xpost=None,
              returns_type="str", note="name of a dependency (AsyncTask.to_str / BatchItemBase.to_str, both under contract: never raise)"))
    reg.add(C(T + "collect_perf_stats", modifies=["perf_stats", "_name", "$alloc", "$llen", "$litem", "$dhas", "$dget", "$olen", "$okey", "$oval"],
              types={"t": "FutureBase"}, calls={"t.to_str": T + "to_str!virtual"},
              post=["fresh(self.perf_stats)", "only_fresh('$llen', '$litem', '$dhas', '$dget', '$olen', '$okey', '$oval')"], xpost=None,
              invariants={1: ["_it1 is self._dependencies", "exact(_c1, list)", "fresh(_c1)",
                              "only_fresh('$llen', '$litem', '$dhas', '$dget', '$olen', '$okey', '$oval')",
                              "len(self._dependencies) == old(len(self._dependencies))",
                              "all(self._dependencies[j] is old(self._dependencies[j]) for j in range(0, len(self._dependencies)))",
                              "inv()", "two_state('old')"]},
              labels={"loop_mutates": {1: ["_c1"]}, ("xpost", 0): "profiling-never-raises",
                      },
              note="COLLECT_PERF_STATS only: builds the task's statistics record; must not fail or touch anything a program observes"))
    reg.add(C(T + "dump_perf_stats", modifies=["stats_log", "$dhas", "$dget", "$olen", "$okey", "$oval"],
              assumes=["exact(self.perf_stats, dict)", "alloc(self.perf_stats)",
                       "all(t._contexts is not self.perf_stats for t in objs(AsyncTask))"],
              calls={"profiler.append": "profiler.append"},
              post=["only(self.perf_stats, '$dhas', '$dget', '$olen', '$okey', '$oval')"], xpost=None,
              labels={("xpost", 0): "profiling-never-raises"},
              note="profiling sink: writes the task's own perf_stats dict and the profiler buffer (diagnostic footprint, C20); assumes the "
                   "record exists, i.e. COLLECT_PERF_STATS was already on when the task completed (options are not toggled while tasks are alive)"))
    reg.field_types[("AsyncTask", "perf_stats")] = "dict"

    reg.add(C(T + "_queue_exit", modifies="*",
              calls={"self._generator.close": "env.gen.close"},
              post=["not old(computed(self))", "computed(self)", "self._value is result or computed(old(self))",
                    "self._generator is None"],
              requires=["result is not _none", "self.running == False",
                        # every call site is in _continue after the generator has terminated (its close() branch is then dead)
                        "self._generator is None"],
              xpost=["old(computed(self))", "isinstance(exc, FutureIsAlreadyComputed)", "no_callout()"]))

    reg.add(C(T + "_queue_throw_error", modifies="*", requires=["self.running == False"],
              post=["not old(computed(self))", "computed(self)", "self._error is error"],
              xpost=["old(computed(self))", "isinstance(exc, FutureIsAlreadyComputed)", "no_callout()"],
              labels={("post", 2): "same-error-object"}))

    reg.add(C(T + "_accept_error", modifies="*", requires=["self.running == False"],
              calls={"core_errors.prepare_for_reraise": "qcore.errors.prepare_for_reraise"},
              post=["computed(self)", "implies(not old(computed(self)), self._error is error)",
                    "implies(old(computed(self)), no_callout())"],
              xpost=None,
              labels={("post", 1): "same-error-object"}))

    reg.add(C(T + "_accept_yield_result", modifies=["_last_value", "$llen", "$litem"],
              requires=["not computed(self)", "self.running == False"],
              post=["self._last_value is result", "self._dependencies is old(self._dependencies)",
                    "len(self._dependencies) >= old(len(self._dependencies))",
                    "implies(result is None, len(self._dependencies) == old(len(self._dependencies)))",
                    "only(self, '_last_value')", "only(self._dependencies, '$llen', '$litem')",
                    "len(self._dependencies) == old(len(self._dependencies)) + EFN(result)",
                    "all(self._dependencies[j] is old(self._dependencies[j]) for j in range(0, old(len(self._dependencies))))",
                    "all(Leaf(result, self._dependencies[j]) for j in range(old(len(self._dependencies)), len(self._dependencies)))",
                    "all(implies(Leaf(result, f), any(self._dependencies[j] is f for j in range(old(len(self._dependencies)), "
                    "len(self._dependencies)))) for f in vals())"],
              labels={("post", 6): "one-dependency-per-future-occurrence", ("post", 7): "earlier-dependencies-untouched",
                      ("post", 8): "only-futures-inside-the-yielded-value-become-dependencies",
                      ("post", 9): "every-future-inside-the-yielded-value-becomes-a-dependency"},
              xpost=None))

    RU = z3.Function("R_unwrap", V, V, z3.BoolSort())
    FE = z3.Function("first_err", V, V)
    reg.pyfuncs["R_unwrap"] = lambda env, v, r: RU(v, r)
    reg.pyfuncs["first_err"] = lambda env, v: FE(v)

    STEP = "callcount('env.gen.send') + callcount('env.gen.throw')"
    _late.append(register_unwrap)
    _late.append(register_extract)
    _late.append(register_unwrap_computed)
    reg.add(C(T + "_continue_on_generator", modifies="*",
              requires=["not computed(self)", "self.running == False", "error is None or wellformed_exc(error)"],
              calls={"self._generator.send": "env.gen.send", "self._generator.throw": "env.gen.throw",
                     "debug.get_frame": "debug.get_frame", "sys.exc_info": "env.exc_info"},
              post=["old(self._generator) is not None",
                    STEP + " == 1",
                    "implies(error is None, callcount('env.gen.send') == 1)",
                    "int(self.iteration_index) == old(int(self.iteration_index)) + 1",
                    "self._last_value is None", "self.running == False",
                    "self._generator is old(self._generator)",
                    "implies(not opt('KEEP_DEPENDENCIES'), len(self._dependencies) == 0)",
                    "implies(opt('KEEP_DEPENDENCIES'), self._dependencies is old(self._dependencies) and len(self._dependencies) == old(len(self._dependencies)))",
                    "alloc(self._dependencies) and exact(self._dependencies, list)",
                    "not computed(self)"],
              xpost=["self._generator is None", "self.running == False",
                     "implies(old(self._generator) is None, " + STEP + " == 0)",
                     "implies(old(self._generator) is None and error is None, isinstance(exc, StopIteration))",
                     "implies(old(self._generator) is None and error is not None, exc is error)",
                     "implies(old(self._generator) is not None, " + STEP + " == 1)",
                     "implies(old(self._generator) is not None, int(self.iteration_index) == old(int(self.iteration_index)) + 1)",
                     "not computed(self)",
                     "wellformed_exc(exc)"],
              labels={("post", 1): "resumed-exactly-once", ("xpost", 2): "finished-generator-never-resumed",
                      ("post", 4): "yield-consumed-before-step",
                      "noattrcheck": True,
                      # E4 (acyclic awaiting): while this task's body runs, nothing re-enters this task
                      "site_assumes_after": {
                          "self._generator.send": ["task_frozen(self)", "computed(self) == old(computed(self))"],
                          "self._generator.throw": ["task_frozen(self)", "computed(self) == old(computed(self))"]},
                      "site_requires": {
                          "self._generator.send": ["value is cur_value", "self.running == True", "self._last_value is None"],
                          "self._generator.throw": ["self._last_value is None"]}},
              invariants={1: ["True"]},
              ghost_locals={}))
    reg.add(C("env.exc_info", params=[], modifies=[], post=["tlen(result) == 3"], xpost=None, trusted=True,
              returns_type="tuple"))

    reg.add(C(T + "_continue", modifies="*",
              requires=["not computed(self)", "not blocked(self)", "self.running == False"],
              types={"error": None},
              post=["computed(self) or len(self._dependencies) > 0"],
              xpost=None,
              invariants={1: ["not computed(self)", "not blocked(self)", "self.running == False", "inv()", "two_state('old')"]},
              labels={"site_requires": {
                  "self._continue_on_generator": ["not blocked(self)", "not computed(self)",
                                                  "implies(error is None, R_unwrap(self._last_value, value))",
                                                  "implies(error is not None, value is None)"],
                  "self._queue_exit": ["not computed(self)"],
              }, ("post", 0): "returns-only-when-done-or-waiting"}))

    for f in _late:
        f(reg, repo)
    del _late[:]


def register_unwrap(reg, repo):
    """Body contract of unwrap: one-level unfolding of the relation R_unwrap ('r is v with every future replaced by
    its value, same shape').  R_unwrap is a relation symbol closed under the introduction rules R_intro() (its
    definition); recursive calls use this same contract, so every level is checked against one unfolding."""
    import z3
    from pyvc import smt
    from pyvc.smt import V, NONE, NONE_MARK
    from pyvc.state import fresh_name
    from pyvc.contract import Contract as C
    RU = z3.Function("R_unwrap", V, V, z3.BoolSort())

    def r_intro(env):
        h = env.heap
        eng = env.eng
        v, r = z3.Const(fresh_name("v!ri"), V), z3.Const(fresh_name("r!ri"), V)
        i = z3.Int(fresh_name("i!ri"))
        isf = eng.isinstance_f(v, [eng.ct.cls("FutureBase")])
        tup = lambda x: smt.typeof(x) == eng.ct.cls("tuple")
        lst = lambda x: smt.typeof(x) == eng.ct.cls("list")
        dct = lambda x: smt.typeof(x) == eng.ct.cls("dict")
        ll = lambda x: h.sel("$llen", x)
        li = lambda x, k: z3.Select(h.sel("$litem", x), k)
        ol = lambda x: h.sel("$olen", x)
        ok = lambda x, k: z3.Select(h.sel("$okey", x), k)
        ov = lambda x, k: z3.Select(h.sel("$oval", x), k)
        rules = [
            z3.ForAll([v, r], z3.Implies(z3.And(v == NONE, r == NONE), RU(v, r)), patterns=[RU(v, r)]),
            z3.ForAll([v, r], z3.Implies(z3.And(isf, h.sel("_value", v) != NONE_MARK, h.sel("_error", v) == NONE, r == h.sel("_value", v)),
                                         RU(v, r)), patterns=[RU(v, r)]),
            z3.ForAll([v, r], z3.Implies(z3.And(tup(v), tup(r), smt.tlen(v) == smt.tlen(r),
                                                z3.ForAll([i], z3.Implies(z3.And(0 <= i, i < smt.tlen(v)), RU(smt.titem(v, i), smt.titem(r, i))))),
                                         RU(v, r)), patterns=[RU(v, r)]),
            z3.ForAll([v, r], z3.Implies(z3.And(lst(v), lst(r), ll(v) == ll(r),
                                                z3.ForAll([i], z3.Implies(z3.And(0 <= i, i < ll(v)), RU(li(v, i), li(r, i))))),
                                         RU(v, r)), patterns=[RU(v, r)]),
            z3.ForAll([v, r], z3.Implies(z3.And(dct(v), dct(r), ol(v) == ol(r),
                                                z3.ForAll([i], z3.Implies(z3.And(0 <= i, i < ol(v)),
                                                                          z3.And(ok(v, i) == ok(r, i), RU(ov(v, i), ov(r, i)))))),
                                         RU(v, r)), patterns=[RU(v, r)]),
        ]
        return z3.And(*rules)
    reg.pyfuncs["R_intro"] = r_intro

    # the caller-facing contract (effect-free when every leaf is computed) keeps its old name for _continue
    eff = reg.contracts.pop("async_task.unwrap")
    eff.name = "async_task.unwrap!effectfree"
    reg.contracts[eff.name] = eff
    reg.contracts["async_task.AsyncTask._continue"].calls["unwrap"] = eff.name

    CONT = "exact(value, tuple) or exact(value, list) or exact(value, dict)"
    reg.add(C("async_task.unwrap", modifies="*",
              assumes=["implies(exact(value, dict), all(all(implies(i < j, okey(value, i) is not okey(value, j)) for i in range(0, j)) "
                       "for j in range(0, olen(value))))"],
              types={"tpl": "tuple", "lst": "list", "dct": "dict", "future": "FutureBase", "result": "list"},
              labels={"site_assumes": {"future.value": ["not in_window(future)", "computed(future) or not isinstance(future, AsyncTask) or future.running == False"]},
                      # R_unwrap is DEFINED as the least relation closed under R_intro() in every heap; the body proves
                      # R_intro(exit heap) => R_unwrap(value, retval), hence callers may use the fact itself
                      "caller_post": ["R_unwrap(value, retval)"],
                      # E: the yielded list / dict is not mutated by unknown code while its members are being unwrapped
                      "site_assumes_after": {"unwrap": [
                          "implies(exact(value, list), len(value) == old(len(value)) and all(value[i] is old(value[i]) for i in range(0, len(value))))",
                          "implies(exact(value, dict), olen(value) == old(olen(value)) and "
                          "all(okey(value, i) is old(okey(value, i)) and oval(value, i) is old(oval(value, i)) for i in range(0, olen(value))))"]},
                      "loop_mutates": {1: ["result"], 2: ["_c2"], 3: ["_c3"]},
                      ("post", 0): "relation-holds", ("post", 1): "none-stays-none", ("post", 2): "future-replaced-by-its-value",
                      ("post", 3): "tuple-same-shape", ("post", 4): "list-same-shape", ("post", 5): "dict-same-keys-same-order",
                      ("xpost", 0): "future-raises-its-own-error-object", ("xpost", 1): "non-future-is-TypeError"},
              post=["implies(R_intro(), R_unwrap(value, retval))",
                    "implies(value is None, retval is None)",
                    "implies(isinstance(value, FutureBase), computed(value) and value._error is None and retval is value._value)",
                    "implies(exact(value, tuple), exact(retval, tuple) and tlen(retval) == tlen(value) and "
                    "all(R_unwrap(titem(value, i), titem(retval, i)) for i in range(0, tlen(value))))",
                    "implies(exact(value, list), exact(retval, list) and len(retval) == len(value) and "
                    "all(R_unwrap(value[i], retval[i]) for i in range(0, len(value))))",
                    "implies(exact(value, dict), exact(retval, dict) and olen(retval) == olen(value) and "
                    "all(okey(retval, i) is okey(value, i) and R_unwrap(oval(value, i), oval(retval, i)) for i in range(0, olen(value))))"],
              xpost=["implies(isinstance(value, FutureBase) and old(computed(value)), exc is old(value._error) and old(value._error) is not None)",
                     "implies(value is not None and not isinstance(value, FutureBase) and not (" + CONT + "), isinstance(exc, TypeError))",
                     "value is not None"],
              invariants={
                  1: ["exact(result, list)", "fresh(result)", "_it1 is tpl", "len(result) == int(_i1)", "int(_i1) <= tlen(tpl)",
                      "all(R_unwrap(titem(tpl, i), result[i]) for i in range(0, int(_i1)))", "inv()", "two_state('old')"],
                  2: ["exact(_c2, list)", "fresh(_c2)", "_it2 is lst", "len(_c2) == int(_i2)", "int(_i2) <= len(lst)",
                      "len(lst) == old(len(lst))", "all(lst[i] is old(lst[i]) for i in range(0, len(lst)))",
                      "all(R_unwrap(lst[i], _c2[i]) for i in range(0, int(_i2)))", "inv()", "two_state('old')"],
                  3: ["exact(_c3, dict)", "fresh(_c3)", "_it3 is dct", "olen(_c3) == int(_i3)", "int(_i3) <= olen(dct)",
                      "olen(dct) == old(olen(dct))",
                      "all(okey(dct, i) is old(okey(dct, i)) and oval(dct, i) is old(oval(dct, i)) for i in range(0, olen(dct)))",
                      "all(okey(_c3, i) is okey(dct, i) and R_unwrap(oval(dct, i), oval(_c3, i)) for i in range(0, int(_i3)))",
                      "all(dhas(_c3, k) == any(okey(dct, i) is k for i in range(0, int(_i3))) for k in vals())",
                      "inv()", "two_state('old')"]},
              note="E: a yielded list/dict is not mutated while it is being unwrapped (loop invariants 2/3 state it; unknown code running "
                   "inside future.value() could in principle mutate it: listed assumption via the invariants' frame clauses)"))


def register_unwrap_computed(reg, repo):
    """Second contract on the body of unwrap, the one _continue relies on: when every future inside `value` is computed,
    unwrap runs no unknown code and writes nothing but fresh containers.  Replaces the formerly trusted caller-facing contract
    (unwrap!effectfree)."""
    import copy
    from pyvc.contract import Contract as C
    g = reg.contracts["async_task.unwrap"]
    reg.contracts.pop("async_task.unwrap!effectfree", None)
    LEAVES = "all(implies(Leaf(value, f), alloc(f) and computed(f)) for f in vals())"
    FRESH_ONLY = "only_fresh('$llen', '$litem', '$dhas', '$dget', '$olen', '$okey', '$oval')"
    c = C("async_task.unwrap!computed", params=["value"],
          modifies=["$alloc", "$llen", "$litem", "$dhas", "$dget", "$olen", "$okey", "$oval"],
          requires=[LEAVES],
          assumes=list(g.assumes) + ["EF_def(value)"],
          types=dict(g.types),
          post=list(g.post) + ["no_callout()", FRESH_ONLY],
          xpost=list(g.xpost) + ["no_callout()", FRESH_ONLY],
          invariants={k: list(v) + [FRESH_ONLY] for k, v in copy.deepcopy(g.invariants).items()},
          calls={"unwrap": "async_task.unwrap!computed"},
          labels=dict(g.labels),
          note="every future inside the value is computed (requires): future.value() is then pure (pure_when of FutureBase.value), so the body "
               "runs no unknown code; the list/dict frame clauses of the loop invariants are proved instead of assumed")
    c.labels[("post", len(g.post))] = "runs-no-unknown-code"
    c.labels[("post", len(g.post) + 1)] = "writes-only-containers-it-created"
    c.labels.pop("site_assumes_after", None)
    reg.add(c)
    cont = reg.contracts["async_task.AsyncTask._continue"]
    cont.calls["unwrap"] = c.name
    sa = cont.labels.setdefault("site_assumes", {})
    # A: the dependencies of a suspended task cover every future inside its last yielded value (proved when the value is accepted:
    #    _accept_yield_result#every-future-inside-the-yielded-value-becomes-a-dependency; assumed to survive the suspension, i.e. the
    #    yielded containers are not mutated meanwhile), and the unfolding of Leaf holds for that value in the current heap
    sa["unwrap"] = ["all(implies(Leaf(self._last_value, f), any(self._dependencies[j] is f for j in range(0, len(self._dependencies)))) "
                    "for f in vals())"]
    # W: an exception stored in a future never carries the private marker as StopIteration.value / AsyncTaskResult.result
    sa.setdefault("self._continue_on_generator", []).append("error is None or wellformed_exc(error)")


def register_extract(reg, repo):
    """Body contract of extract_futures.  Specification symbols (heap-free, uninterpreted):
        Leaf(v, f)   f is a future occurring inside v (v itself, or inside a tuple/list member or dict value of v)
        EFN(v)       how many futures the scan of v appends (occurrences, not distinct futures)
        EFS(v, i)    suffix sums over a tuple/list: EFN(v[i]) + ... + EFN(v[len-1])
        EFP(v, i)    prefix sums over the values of a dict: EFN(val_0) + ... + EFN(val_{i-1})
    EF_def() states their one-level unfoldings in the current heap; it is assumed at entry of every (recursive)
    activation -- the scanned structure is a finite tree/DAG of containers that is not mutated during the scan and does not
    contain the accumulator list.  The contract states, for one level: how many elements are appended, that the old
    prefix is untouched, that exactly the futures inside `value` are appended (soundness and completeness), and where
    the segment of every member lies (members right-to-left for tuples/lists, values left-to-right for dicts).
    Order at depth follows by induction over the nesting (not mechanised; the bounded stand-in `structures` checks the
    composed order to depth 3)."""
    import z3
    from pyvc import smt
    from pyvc.smt import V
    from pyvc.state import fresh_name
    from pyvc.contract import Contract as C
    LEAF = z3.Function("EF_Leaf", V, V, z3.BoolSort())
    EFN = z3.Function("EF_N", V, z3.IntSort())
    EFS = z3.Function("EF_S", V, z3.IntSort(), z3.IntSort())
    EFP = z3.Function("EF_P", V, z3.IntSort(), z3.IntSort())
    from pyvc.spec import as_int, as_v
    reg.pyfuncs["Leaf"] = lambda env, v, f: LEAF(as_v(v), as_v(f))
    reg.pyfuncs["EFN"] = lambda env, v: EFN(as_v(v))
    reg.pyfuncs["EFS"] = lambda env, v, i: EFS(as_v(v), as_int(i))
    reg.pyfuncs["EFP"] = lambda env, v, i: EFP(as_v(v), as_int(i))

    def ef_def(env, v):
        """one-level unfolding of Leaf / EFN / EFS / EFP at the object v in the current heap (not quantified over v: a
        quantified elimination rule re-triggers itself on its own Skolem terms)"""
        h = env.heap
        eng = env.eng
        v = as_v(v)
        f, x = z3.Const(fresh_name("f!ef"), V), z3.Const(fresh_name("x!ef"), V)
        i = z3.Int(fresh_name("i!ef"))
        isf = eng.isinstance_f(v, [eng.ct.cls("FutureBase")])
        tup = smt.typeof(v) == eng.ct.cls("tuple")
        lst = smt.typeof(v) == eng.ct.cls("list")
        dct = smt.typeof(v) == eng.ct.cls("dict")
        ll = h.sel("$llen", v)
        li = lambda k: z3.Select(h.sel("$litem", v), k)
        ol = h.sel("$olen", v)
        ov = lambda k: z3.Select(h.sel("$oval", v), k)
        tl = smt.tlen(v)
        ti = lambda k: smt.titem(v, k)
        other = z3.And(z3.Not(isf), z3.Not(tup), z3.Not(lst), z3.Not(dct))
        ax = [
            # Leaf(v, .)
            z3.Implies(isf, z3.ForAll([f], LEAF(v, f) == (f == v), patterns=[LEAF(v, f)])),
            z3.Implies(other, z3.ForAll([f], z3.Not(LEAF(v, f)), patterns=[LEAF(v, f)])),
            z3.Implies(tup, z3.And(
                z3.ForAll([f, i], z3.Implies(z3.And(0 <= i, i < tl, LEAF(ti(i), f)), LEAF(v, f)), patterns=[LEAF(ti(i), f)]),
                z3.ForAll([f], z3.Implies(LEAF(v, f), z3.Exists([i], z3.And(0 <= i, i < tl, LEAF(ti(i), f)))), patterns=[LEAF(v, f)]))),
            z3.Implies(lst, z3.And(
                z3.ForAll([f, i], z3.Implies(z3.And(0 <= i, i < ll, LEAF(li(i), f)), LEAF(v, f)), patterns=[LEAF(li(i), f)]),
                z3.ForAll([f], z3.Implies(LEAF(v, f), z3.Exists([i], z3.And(0 <= i, i < ll, LEAF(li(i), f)))), patterns=[LEAF(v, f)]))),
            z3.Implies(dct, z3.And(
                z3.ForAll([f, i], z3.Implies(z3.And(0 <= i, i < ol, LEAF(ov(i), f)), LEAF(v, f)), patterns=[LEAF(ov(i), f)]),
                z3.ForAll([f], z3.Implies(LEAF(v, f), z3.Exists([i], z3.And(0 <= i, i < ol, LEAF(ov(i), f)))), patterns=[LEAF(v, f)]))),
            # counts
            z3.ForAll([x], EFN(x) >= 0, patterns=[EFN(x)]),
            z3.Implies(isf, EFN(v) == 1), z3.Implies(other, EFN(v) == 0),
            z3.Implies(tup, z3.And(EFN(v) == EFS(v, 0), EFS(v, tl) == 0,
                                   z3.ForAll([i], z3.Implies(z3.And(0 <= i, i < tl), EFS(v, i) == EFN(ti(i)) + EFS(v, i + 1)),
                                             patterns=[z3.MultiPattern(EFS(v, i), ti(i))]),
                                   z3.ForAll([i], z3.Implies(z3.And(0 <= i, i <= tl), EFS(v, i) >= 0), patterns=[EFS(v, i)]))),
            z3.Implies(lst, z3.And(EFN(v) == EFS(v, 0), EFS(v, ll) == 0,
                                   z3.ForAll([i], z3.Implies(z3.And(0 <= i, i < ll), EFS(v, i) == EFN(li(i)) + EFS(v, i + 1)),
                                             patterns=[z3.MultiPattern(EFS(v, i), li(i))]),
                                   z3.ForAll([i], z3.Implies(z3.And(0 <= i, i <= ll), EFS(v, i) >= 0), patterns=[EFS(v, i)]))),
            z3.Implies(dct, z3.And(EFN(v) == EFP(v, ol), EFP(v, 0) == 0,
                                   z3.ForAll([i], z3.Implies(z3.And(0 <= i, i < ol), EFP(v, i + 1) == EFP(v, i) + EFN(ov(i))),
                                             patterns=[z3.MultiPattern(EFP(v, i), ov(i))]),
                                   z3.ForAll([i], z3.Implies(z3.And(0 <= i, i <= ol), EFP(v, i) >= 0), patterns=[EFP(v, i)]))),
        ]
        return z3.And(*ax)
    reg.pyfuncs["EF_def"] = ef_def

    old = reg.contracts.pop("async_task.extract_futures")
    SEG_T = ("all(all(Leaf(titem(value, k), result[j]) for j in range(N0 + EFS(value, k + 1), N0 + EFS(value, k))) and "
             "all(implies(Leaf(titem(value, k), f), any(result[j] is f for j in range(N0 + EFS(value, k + 1), N0 + EFS(value, k)))) for f in vals()) "
             "for k in range(LO, tlen(value)))")
    SEG_L = SEG_T.replace("titem(value, k)", "value[k]").replace("tlen(value)", "len(value)")
    SEG_D = ("all(all(Leaf(oval(value, k), result[j]) for j in range(N0 + EFP(value, k), N0 + EFP(value, k + 1))) and "
             "all(implies(Leaf(oval(value, k), f), any(result[j] is f for j in range(N0 + EFP(value, k), N0 + EFP(value, k + 1)))) for f in vals()) "
             "for k in range(0, HI))")
    n0 = "old(len(result))"
    FRAME = ["exact(result, list)", "len(result) >= old(len(result))",
             "all(result[j] is old(result[j]) for j in range(0, old(len(result))))",
             "only(result, '$llen', '$litem')"]
    SOUND = "all(Leaf(value, result[j]) and alloc(result[j]) and isinstance(result[j], FutureBase) for j in range(old(len(result)), len(result)))"
    reg.add(C("async_task.extract_futures", params=["value", "result"], modifies=["$llen", "$litem"],
              requires=["exact(result, list)", "alloc(result)",
                        "all(b.items is not result for b in objs(BatchBase))",
                        "all(s._tasks is not result for s in objs(TaskScheduler))",
                        "all(implies(t._dependencies is result, t.running == False and t.$n_notified == 0) for t in objs(AsyncTask))"],
              assumes=["EF_def(value)", "value is not result",
                       "implies(isinstance(value, FutureBase), alloc(value))"],
              types={"result": "list"},
              post=["retval is result",
                    "len(result) == old(len(result)) + EFN(value)"] + FRAME + [
                    SOUND,
                    "all(implies(Leaf(value, f), any(result[j] is f for j in range(old(len(result)), len(result)))) for f in vals())",
                    "implies(exact(value, tuple), " + SEG_T.replace("N0", n0).replace("LO", "0") + ")",
                    "implies(exact(value, list), " + SEG_L.replace("N0", n0).replace("LO", "0") + ")",
                    "implies(exact(value, dict), " + SEG_D.replace("N0", n0).replace("HI", "olen(value)") + ")",
                    "implies(value is None, len(result) == old(len(result)))"],
              xpost=None,
              invariants={
                  1: ["exact(result, list)", "alloc(result)", "int(i) >= -1",
                      "implies(exact(value, tuple), int(i) < tlen(value))", "implies(exact(value, list), int(i) < len(value))",
                      "exact(value, tuple) or exact(value, list)",
                      "len(result) == old(len(result)) + EFS(value, int(i) + 1)",
                      "all(result[j] is old(result[j]) for j in range(0, old(len(result))))",
                      "implies(exact(value, list), len(value) == old(len(value)) and all(value[k] is old(value[k]) for k in range(0, len(value))))",
                      SOUND,
                      "implies(exact(value, tuple), " + SEG_T.replace("N0", n0).replace("LO", "int(i) + 1") + ")",
                      "implies(exact(value, list), " + SEG_L.replace("N0", n0).replace("LO", "int(i) + 1") + ")",
                      # the segments already written lie below the current end (EFS is antitone; proved step by step)
                      "implies(exact(value, tuple), all(EFS(value, k) <= EFS(value, int(i) + 1) for k in range(int(i) + 1, tlen(value) + 1)))",
                      "implies(exact(value, list), all(EFS(value, k) <= EFS(value, int(i) + 1) for k in range(int(i) + 1, len(value) + 1)))",
                      "implies(exact(value, tuple), all(all(implies(Leaf(titem(value, k), f), any(result[j] is f for j in range(old(len(result)), len(result)))) "
                      "for f in vals()) for k in range(int(i) + 1, tlen(value))))",
                      "implies(exact(value, list), all(all(implies(Leaf(value[k], f), any(result[j] is f for j in range(old(len(result)), len(result)))) "
                      "for f in vals()) for k in range(int(i) + 1, len(value))))",
                      "only(result, '$llen', '$litem')", "inv()", "two_state('old')"],
                  2: ["exact(result, list)", "alloc(result)", "_it2 is value", "exact(value, dict)", "int(_i2) <= olen(value)",
                      "len(result) == old(len(result)) + EFP(value, int(_i2))",
                      "all(result[j] is old(result[j]) for j in range(0, old(len(result))))",
                      SOUND,
                      SEG_D.replace("N0", n0).replace("HI", "int(_i2)"),
                      "all(EFP(value, k) <= EFP(value, int(_i2)) for k in range(0, int(_i2) + 1))",
                      "all(all(implies(Leaf(oval(value, k), f), any(result[j] is f for j in range(old(len(result)), len(result)))) "
                      "for f in vals()) for k in range(0, int(_i2)))",
                      "int(_i2) >= 0", "olen(value) == old(olen(value))",
                      "all(oval(value, k) is old(oval(value, k)) for k in range(0, olen(value)))",
                      "only(result, '$llen', '$litem')", "inv()", "two_state('old')"]},
              labels={"loop_mutates": {1: ["result"], 2: ["result"]},
                      ("post", 1): "appends-one-entry-per-future-occurrence", ("post", 4): "old-entries-untouched",
                      ("post", 6): "only-futures-inside-the-value-are-appended", ("post", 7): "every-future-inside-the-value-is-appended",
                      ("post", 8): "tuple-members-right-to-left", ("post", 9): "list-members-right-to-left",
                      ("post", 10): "dict-values-left-to-right", ("post", 11): "none-appends-nothing"},
              note="E: the scanned structure is a finite acyclic nest of tuples/lists/dicts, is not mutated during the scan and does "
                   "not contain the accumulator list (assumes EF_def(), value is not result); RecursionError on deep nests is outside the model"))
