"""Contracts for asynq/futures.py (C10, shared by C01/C02/C05/C11)."""
from pyvc.contract import Contract as C

NOTIF = "self.$n_notified == old(self.$n_notified) + 1"
FROZEN = ("all(implies(old(alloc(f)) and old(computed(f)) and f is not self, f.$n_notified == old(f.$n_notified)) "
          "for f in objs(FutureBase))")


# E5: unknown code does not ask an item for its value while its batch is completing its items
NOWIN = "not in_window(self)"
KEEP = "self.$n_flush_body == old(self.$n_flush_body)"
# a task is completed between generator steps, never from inside its own running body
NOTRUN = "implies(isinstance(self, AsyncTask), self.running == False)"

# a constructor runs on a fresh object (modelled with the pending defaults, see common.fresh_future)
FRESH = ["self._value is _none", "self._error is None"]


def register(reg, repo):
    reg.field_types[("FutureBase", "on_computed")] = "EventHook"

    reg.add(C("futures.FutureBase.__init__", requires=FRESH,
              modifies=["_value", "_error", "_in_repr", "on_computed", "$alloc"],
              post=["self._value is _none", "self._error is None",
                    "only(self, '_value', '_error', '_in_repr', 'on_computed')",
                    "fresh(self.on_computed)"],
              xpost=None, two_state=False,
              note="initialises a pending future (constructors are exempt from the two-state invariant: self is new)"))

    reg.add(C("futures.FutureBase.is_computed", modifies=[],
              post=["result == computed(self)"], xpost=None, returns_type="bool"))

    reg.add(C("futures.FutureBase.value", modifies="*", requires=[NOWIN, "computed(self) or " + NOTRUN], pure_when="computed(self)",
              post=["computed(self)", "self._error is None", "result is self._value",
                    "implies(old(computed(self)), result is old(self._value))",
                    "implies(old(computed(self)), no_callout())"],
              xpost=["implies(old(computed(self)), exc is old(self._error))",
                     "implies(old(computed(self)), old(self._error) is not None)",
                     "implies(old(computed(self)), no_callout())"],
              labels={("post", 4): "no-recompute", ("xpost", 2): "no-recompute"}))

    reg.add(C("futures.FutureBase.__call__", modifies="*", requires=[NOWIN, "computed(self) or " + NOTRUN], pure_when="computed(self)",
              post=["computed(self)", "self._error is None", "result is self._value",
                    "implies(old(computed(self)), result is old(self._value))"],
              xpost=["implies(old(computed(self)), exc is old(self._error))",
                     "implies(old(computed(self)), old(self._error) is not None)"]))

    reg.add(C("futures.FutureBase.error", modifies="*", requires=[NOWIN, "computed(self) or " + NOTRUN], pure_when="computed(self)",
              post=["computed(self)", "result is self._error",
                    "implies(old(computed(self)), result is old(self._error))",
                    "implies(isinstance(self, BatchBase) and not old(computed(self)), self.$n_notified >= 1 and self.$n_flush_body == old(self.$n_flush_body) + 1)",
                    "implies(old(computed(self)), no_callout())"],
              xpost=["not old(computed(self))", "not isinstance(self, BatchBase)"],
              labels={("post", 4): "no-recompute"}))

    reg.add(C("futures.FutureBase.set_value", modifies="*",
              requires=["value is not _none", NOTRUN],
              post=["not old(computed(self))", "computed(self)", "self._value is value",
                    "self._error is None", NOTIF, KEEP],
              xpost=["old(computed(self))", "isinstance(exc, FutureIsAlreadyComputed)",
                     "unchanged('_value', '_error', '$n_notified', '$n_flush_body')", "no_callout()"],
              labels={("xpost", 2): "changes-nothing", ("xpost", 3): "changes-nothing-no-callout",
                      ("post", 4): "notified-once"}))

    reg.add(C("futures.FutureBase.set_error", modifies="*", requires=[NOTRUN],
              post=["not old(computed(self))", "computed(self)", "self._error is error",
                    "self._value is None", NOTIF, KEEP],
              xpost=["old(computed(self))", "isinstance(exc, FutureIsAlreadyComputed)",
                     "unchanged('_value', '_error', '$n_notified', '$n_flush_body')", "no_callout()"],
              labels={("xpost", 2): "changes-nothing", ("xpost", 3): "changes-nothing-no-callout",
                      ("post", 4): "notified-once"}))

    reg.add(C("futures.FutureBase.reset_unsafe", modifies=["_value", "_error"],
              post=["updated('_value', self, _none)", "updated('_error', self, None)"],
              xpost=None, two_state=False, inv_exit=False,
              note="explicit escape hatch: exempt from T1 and from the ghost part of I-Fut (E1: unknown code does not call it)"))

    reg.add(C("futures.FutureBase._computed!virtual", params=["self"], kind="method", modifies="*", trusted=True,
              requires=["computed(self)", "self.$n_notified == 0", NOTRUN],
              post=[NOTIF, FROZEN, "implies(isinstance(self, BatchBase), items_done(self))"], xpost=None,
              labels={"ts_skip": ("notif",)},
              note="dynamic dispatch of self._computed(): every override (FutureBase, AsyncTask, BatchBase) "
                   "is verified against a contract that refines this one"))
    reg.add(C("futures.FutureBase._computed", modifies="*",
              requires=["computed(self)", "self.$n_notified == 0",
                        "implies(isinstance(self, BatchBase), items_done(self))"],
              post=[NOTIF, FROZEN], xpost=None,
              labels={"ts_skip": ("notif",), ("post", 0): "notified-once"},
              note="the announcement: requires the outcome to be visible already"))

    reg.add(C("futures.FutureBase._compute!virtual", params=["self"], kind="method", modifies="*", trusted=True,
              requires=["not computed(self)", NOWIN, NOTRUN],
              post=["computed(self)",
                    "implies(isinstance(self, BatchBase), self.$n_notified >= 1 and self.$n_flush_body == old(self.$n_flush_body) + 1)"],
              xpost=["not isinstance(self, BatchBase)", "isinstance(exc, Exception)"],
              note="(BaseException from a provider/flush is treated as fatal and not modelled) dynamic dispatch of self._compute(); overrides (Future, AsyncTask, BatchBase, BatchItemBase) refine this"))
    reg.add(C("futures.FutureBase._compute", modifies=[],
              post=["False"], xpost=["isinstance(exc, NotImplementedError)"],
              note="abstract body"))

    reg.add(C("futures.FutureBase.raise_if_error", modifies=[],
              post=["self._error is None"],
              xpost=["exc is self._error", "self._error is not None"]))

    reg.add(C("futures.Future.__init__", requires=FRESH,
              modifies=["_value", "_error", "_in_repr", "on_computed", "_value_provider", "$alloc"],
              post=["self._value is _none", "self._error is None", "self._value_provider is value_provider",
                    "only(self, '_value', '_error', '_in_repr', 'on_computed', '_value_provider')"],
              xpost=None, two_state=False))

    reg.add(C("futures.Future._compute", modifies="*",
              requires=["not computed(self)"],
              calls={"self._value_provider": "env.call0"},
              post=["computed(self)", "self._error is None",
                    "callcount('env.call0') == 1"],
              xpost=["implies(isinstance(exc, Exception), computed(self))",
                     "implies(isinstance(exc, Exception) and not isinstance(exc, FutureIsAlreadyComputed), self._error is exc)",
                     "callcount('env.call0') == 1"],
              labels={("post", 2): "provider-once", ("xpost", 1): "same-error-object", ("xpost", 2): "provider-once"}))

    reg.add(C("futures.ConstFuture.__init__", modifies="*", requires=FRESH + ["value is not _none"],
              post=["computed(self)", "self._value is value", "self._error is None"],
              xpost=None))

    reg.add(C("futures.ErrorFuture.__init__", modifies="*", requires=FRESH,
              post=["computed(self)", "self._error is error", "self._value is None"],
              xpost=None))
