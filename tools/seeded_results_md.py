#!/usr/bin/env python3
"""Write seeded/RESULTS.md from seeded_results/<round>/<id>.txt (output of tools/seeded_par.py) and the meta.json files."""
import json, os, re
V = "/verif"
rounds = [("seeded", "Round 1"), ("seeded2", "Round 2"), ("seeded3", "Round 3"), ("seeded4", "Round 4")]
out = ["# Seeded changes: which check catches what", "",
       "Every change was written by a sub-agent that saw only the property text and its own scratch worktree, was confirmed there",
       "(the repository's 104 tests pass with it; its demo fails with it and passes without it) and is kept as",
       "`<round>/<id>/{patch.diff,demo.py,meta.json}`.  `tools/seeded_par.py` applies each to a scratch copy of `/repo/asynq`, runs the",
       "check of the change's own property against it (quick tier) and records the VIOLATION lines.  *contract* = a named obligation of a",
       "function under contract failed or became undischarged and was replayed on the real code; *structural* = an AST-level obligation;",
       "*bounded* = only the labelled bounded stand-in (scenario battery / structure enumeration) reported it.", ""]
tot = {}
for d, title in rounds:
    rd = os.path.join(V, "seeded_results", d)
    if not os.path.isdir(rd):
        continue
    out += ["## %s (`%s/`)" % (title, d), "", "| id | change | result | caught by |", "|----|--------|--------|-----------|"]
    for i in range(1, 21):
        pid = "C%02d" % i
        mp = os.path.join(V, d, pid, "meta.json")
        rp = os.path.join(rd, pid + ".txt")
        if not (os.path.exists(mp) and os.path.exists(rp)):
            continue
        m = json.load(open(mp))
        txt = open(rp).read()
        rc = re.search(r"rc=(\d+)", txt)
        rc = int(rc.group(1)) if rc else -1
        names = re.findall(r"replay_out/C\d+/(\S+)\.json", txt)
        contract = [n for n in names if not n.startswith(("bounded_", "structural_"))]
        structural = [n for n in names if n.startswith("structural_")]
        bounded = [n for n in names if n.startswith("bounded_")]
        kind = "contract" if contract else "structural" if structural else "bounded" if bounded else "-"
        res = {0: "MISSED (exit 0)", 1: "VIOLATION", 2: "UNDECIDED (exit 2)", 3: "CHECKER ERROR"}.get(rc, "rc=%d" % rc)
        if rc == 0 and m.get("status_on_current_tree"):
            res = "exit 0 - correct: the change no longer breaks the property on the repaired tree (its demo passes; see meta.json)"
        if rc == 2 and m.get("status_on_current_tree"):
            res = "exit 2 (undecided) - the change no longer breaks the property on the repaired tree (its demo passes; see meta.json)"
        tot.setdefault(d, []).append((res, kind))
        show = [n.replace("__", "#", 1).replace("_", ":", 1) if False else n for n in (contract + structural)[:3]] + \
               [n.replace("bounded_bounded_scenario_", "scenario ").replace("bounded_bounded_structures_", "structures ") for n in bounded[:2]]
        summ = m.get("summary", "").replace("|", "/").replace("\n", " ")
        if len(summ) > 230:
            summ = summ[:227] + "..."
        out.append("| %s | %s | %s | **%s**: %s |" % (pid, summ, res, kind, "; ".join("`%s`" % s for s in show)))
    out.append("")
out += ["## Totals", ""]
for d, title in rounds:
    if d in tot:
        r = tot[d]
        out.append("* %s: %d changes, %d VIOLATION (%d by a contract obligation, %d structural, %d by the bounded stand-in only), %d undecided, %d missed" % (
            title, len(r), sum(1 for a, _ in r if a == "VIOLATION"), sum(1 for a, k in r if a == "VIOLATION" and k == "contract"),
            sum(1 for a, k in r if a == "VIOLATION" and k == "structural"), sum(1 for a, k in r if a == "VIOLATION" and k == "bounded"),
            sum(1 for a, _ in r if a.startswith("UNDECIDED")), sum(1 for a, _ in r if a.startswith("MISSED"))) +
                   ("; %d no longer a violation on the repaired tree (exit 0 or 2, no VIOLATION line)" % sum(1 for a, _ in r if a.startswith("exit "))
                    if any(a.startswith("exit ") for a, _ in r) else ""))
open(os.path.join(V, "seeded", "RESULTS.md"), "w").write("\n".join(out) + "\n")
print("\n".join(out[-5:]))
