"""Mutation self-test of the contracts (thorough tier): each committed body edit must make at least one
obligation of the edited function fail to discharge.  An edit that still verifies is a contract weakness."""
import json
import os
import shutil
import tempfile

HERE = os.path.dirname(os.path.dirname(os.path.abspath(__file__)))


def run(functions, timeout=20, root="/repo"):
    from . import verify
    muts = [m for m in json.load(open(os.path.join(HERE, "selftest", "mutations.json"))) if m["function"] in functions]
    out = {"run": 0, "detected": 0, "missed": [], "not_applicable": [], "details": []}
    for m in muts:
        d = tempfile.mkdtemp(prefix="asynq_selftest_")
        try:
            os.makedirs(os.path.join(d, "asynq"))
            for f in os.listdir(os.path.join(root, "asynq")):
                if f.endswith((".py", ".pxd")):
                    shutil.copy(os.path.join(root, "asynq", f), os.path.join(d, "asynq", f))
            p = os.path.join(d, "asynq", m["file"])
            s = open(p).read()
            if s.count(m["old"]) < 1:
                out["not_applicable"].append(m["note"])      # the source changed: the edit no longer applies
                continue
            open(p, "w").write(s.replace(m["old"], m["new"], 1))
            verify._cache.pop(d, None)
            os.environ["PYVC_NO_RETRY"] = "1"      # a mutant is expected to leave obligations undecided: no second, longer attempt
            try:
                res = verify.verify_many([m["function"]], timeout=timeout, root=d)
            finally:
                os.environ.pop("PYVC_NO_RETRY", None)
            verify._cache.pop(d, None)
            bad = [o["name"] for r in res for o in r["obligations"] if o["status"] != "discharged"]
            und = [r["undecided"] for r in res if r["undecided"]]
            out["run"] += 1
            if bad or und:
                out["detected"] += 1
                out["details"].append({"edit": m["note"], "function": m["function"], "first_failing": (bad or und)[0][:160]})
            else:
                out["missed"].append(m["note"] + " (" + m["function"] + ")")
        finally:
            shutil.rmtree(d, ignore_errors=True)
    return out
