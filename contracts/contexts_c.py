"""Contracts for task-scoped contexts: asynq/contexts.py, scoped_value.py and the context
bookkeeping of AsyncTask (C06, C07)."""
import z3
from pyvc import smt
from pyvc.smt import V, NONE
from pyvc.state import fresh_name
from pyvc.contract import Contract as C

T = "async_task.AsyncTask."
CTXD = "self._contexts"


def q(n):
    return z3.Const(fresh_name(n), V)


def register(reg, repo):
    # ---- I-Ctx: the registered contexts of a task, in entry order, keyed by identity, no duplicates ----
    def inv_ctx(eng, heap):
        t = q("t!ic")
        i = z3.Int(fresh_name("i!ic"))
        j = z3.Int(fresh_name("j!ic"))
        g = z3.And(heap.sel("$alloc", t), eng.isinstance_f(t, [eng.ct.cls("AsyncTask")]))
        d = heap.sel("_contexts", t)
        n = heap.sel("$olen", d)
        ok = heap.sel("$okey", d)
        ov = heap.sel("$oval", d)
        t2 = q("t2!ic")
        g2 = z3.And(heap.sel("$alloc", t2), eng.isinstance_f(t2, [eng.ct.cls("AsyncTask")]))
        return [
            smt.forall([t, i], z3.Implies(z3.And(g, 0 <= i, i < n),
                                         z3.And(z3.Select(heap.sel("$dhas", d), z3.Select(ok, i)),
                                                z3.Select(ok, i) == smt.ident(z3.Select(ov, i)),
                                                heap.sel("$alloc", z3.Select(ov, i)))),
                      patterns=[z3.Select(heap.sel("$oval", heap.sel("_contexts", t)), i),
                                z3.Select(heap.sel("$okey", heap.sel("_contexts", t)), i)]),
            smt.forall([t, i, j], z3.Implies(z3.And(g, 0 <= i, i < j, j < n), z3.Select(ok, i) != z3.Select(ok, j)),
                      patterns=[z3.MultiPattern(z3.Select(heap.sel("$okey", heap.sel("_contexts", t)), i),
                                                z3.Select(heap.sel("$okey", heap.sel("_contexts", t)), j))]),
            smt.forall([t, t2], z3.Implies(z3.And(g, g2, t != t2), heap.sel("_contexts", t) != heap.sel("_contexts", t2)),
                      patterns=[z3.MultiPattern(heap.sel("_contexts", t), heap.sel("_contexts", t2))]),
        ]
    reg.inv_hooks.append(inv_ctx)

    def ts_clock(eng, old, new, skip=()):
        return [new.sel("$n_clock", NONE) >= old.sel("$n_clock", NONE)]
    reg.two_state_hooks.append(ts_clock)

    # id() is injective on live objects
    def id_axiom(eng, field, a):
        if field != "$okey":
            return []
        x, y = q("x!id"), q("y!id")
        return [smt.forall([x, y], z3.Implies(smt.id_of(x) == smt.id_of(y), x == y),
                          patterns=[z3.MultiPattern(smt.id_of(x), smt.id_of(y))])]
    reg.array_hooks.append(id_axiom)

    OTHERS = ("all(implies(old(alloc(c)) and c is not ctx, c.$n_pause == old(c.$n_pause) and c.$n_resume == old(c.$n_resume) "
              "and c.$n_tpause == old(c.$n_tpause) and c.$n_tresume == old(c.$n_tresume)) for c in vals())")
    FROZEN_TASKS = "all(implies(old(alloc(t)), task_frozen(t)) for t in objs(AsyncTask))"
    DICTS_KEPT = "unchanged('$olen', '$okey', '$oval', '$dhas')"
    P_POST = ["ctx.$n_pause == old(ctx.$n_pause) + 1", "ctx.$n_resume == old(ctx.$n_resume)",
              "old(None.$n_clock) < ctx.$n_tpause and ctx.$n_tpause <= None.$n_clock",
              OTHERS, FROZEN_TASKS, DICTS_KEPT, "ctx._active_task is old(ctx._active_task)"]
    R_POST = ["ctx.$n_resume == old(ctx.$n_resume) + 1", "ctx.$n_pause == old(ctx.$n_pause)",
              "old(None.$n_clock) < ctx.$n_tresume and ctx.$n_tresume <= None.$n_clock",
              OTHERS, FROZEN_TASKS, DICTS_KEPT, "ctx._active_task is old(ctx._active_task)"]
    for name, post in (("env.ctx.pause", P_POST), ("env.ctx.resume", R_POST)):
        c = reg.contracts[name]
        c.post = list(post)
        c.xpost = list(post)
        c.note = ("user context hook (AsyncContext.pause/resume override): may raise anything; ghost counters/timestamps "
                  "record the event; E4'': does not advance pre-existing tasks, touch other pre-existing contexts' "
                  "events, the registration maps or the context's own bookkeeping attribute _active_task")

    # ---- AsyncTask context bookkeeping -------------------------------------------------------------------
    DM = ["$dget", "$dhas", "$olen", "$okey", "$oval"]
    reg.add(C(T + "_enter_context", modifies=DM,
              requires=["not dhas(self._contexts, ident(context))", "alloc(context)"],
              post=["olen(self._contexts) == old(olen(self._contexts)) + 1",
                    "oval(self._contexts, old(olen(self._contexts))) is context",
                    "all(oval(self._contexts, i) is old(oval(self._contexts, i)) for i in range(0, old(olen(self._contexts))))",
                    "only(self._contexts, '$dget', '$dhas', '$olen', '$okey', '$oval')"],
              xpost=None,
              labels={("post", 1): "registered-last"}))
    reg.add(C(T + "_leave_context", modifies=DM,
              post=["old(dhas(self._contexts, ident(context)))",
                    "olen(self._contexts) == old(olen(self._contexts)) - 1",
                    "not dhas(self._contexts, ident(context))",
                    "only(self._contexts, '$dget', '$dhas', '$olen', '$okey', '$oval')"],
              xpost=["not old(dhas(self._contexts, ident(context)))", "isinstance(exc, KeyError)",
                     "unchanged('$dget', '$dhas', '$olen', '$okey', '$oval')"]))

    ALLP = ("all(old(oval(self._contexts, i)).$n_pause == old(oval(self._contexts, i).$n_pause) + 1 "
            "for i in range(0, old(olen(self._contexts))))")
    ORDP = ("all(all(implies(i < j, old(oval(self._contexts, i)).$n_tpause > old(oval(self._contexts, j)).$n_tpause) "
            "for i in range(0, j)) for j in range(0, old(olen(self._contexts))))")
    reg.add(C(T + "_pause_contexts", modifies="*",
              requires=["self.running == False", "not computed(self)"],
              calls={"ctx.pause": "env.ctx.pause", "core_errors.prepare_for_reraise": "qcore.errors.prepare_for_reraise"},
              types={"ctx": None},
              post=["implies(not old(self._contexts_active), no_callout())",
                    "self._contexts_active == False",
                    "implies(old(self._contexts_active) and not computed(self), " + ALLP + ")",
                    "implies(old(self._contexts_active) and not computed(self), " + ORDP + ")",
                    "task_frozen_but_ctx(self) or computed(self)"],
              xpost=None,
              invariants={1: [
                  "exact(_it1, list) and fresh(_it1)", "len(_it1) == old(olen(self._contexts))",
                  "all(_it1[i] is old(oval(self._contexts, i)) for i in range(0, len(_it1)))",
                  "-1 <= int(_i1) and int(_i1) < len(_it1)",
                  "old(self._contexts_active)", "self._contexts_active == False",
                  "all(_it1[i].$n_pause == old(oval(self._contexts, i).$n_pause) + 1 for i in range(int(_i1) + 1, len(_it1)))",
                  "all(_it1[i].$n_pause == old(oval(self._contexts, i).$n_pause) for i in range(0, int(_i1) + 1))",
                  "all(_it1[i].$n_tpause <= None.$n_clock and _it1[i].$n_tpause > old(None.$n_clock) for i in range(int(_i1) + 1, len(_it1)))",
                  "all(all(implies(i < j, _it1[i].$n_tpause > _it1[j].$n_tpause) for i in range(int(_i1) + 1, j)) for j in range(int(_i1) + 1, len(_it1)))",
                  "None.$n_clock >= old(None.$n_clock)",
                  "all(implies(old(alloc(t)), task_frozen(t)) for t in objs(AsyncTask) if t is not self)",
                  "task_frozen_but_active(self)", "self.running == False",
                  "unchanged('$olen', '$okey', '$oval', '$dhas')",
                  "inv()", "two_state('old')",
                  "error is None or alloc(error)",
              ]},
              labels={"site_assumes_after": {"self._accept_error": ["self._contexts_active == old(self._contexts_active)"]},
                      ("post", 0): "noop-when-already-paused", ("post", 2): "each-context-paused-exactly-once",
                      ("post", 3): "paused-in-reverse-entry-order"}))

    ALLR = ("all(old(oval(self._contexts, i)).$n_resume == old(oval(self._contexts, i).$n_resume) + 1 "
            "for i in range(0, old(olen(self._contexts))))")
    ORDR = ("all(all(implies(i < j, old(oval(self._contexts, i)).$n_tresume < old(oval(self._contexts, j)).$n_tresume) "
            "for i in range(0, j)) for j in range(0, old(olen(self._contexts))))")
    reg.add(C(T + "_resume_contexts", modifies="*",
              requires=["self.running == False"],
              calls={"ctx.resume": "env.ctx.resume", "core_errors.prepare_for_reraise": "qcore.errors.prepare_for_reraise"},
              types={"ctx": None},
              post=["implies(old(self._contexts_active), no_callout())",
                    "self._contexts_active == True",
                    "implies(not old(self._contexts_active) and not computed(self), " + ALLR + ")",
                    "implies(not old(self._contexts_active) and not computed(self), " + ORDR + ")",
                    "task_frozen_but_active(self) or computed(self)",
                    "computed(self) == old(computed(self)) or computed(self)"],
              xpost=None,
              invariants={1: [
                  "_it1 is old(self._contexts)", "0 <= int(_i1) and int(_i1) <= olen(_it1)",
                  "not old(self._contexts_active)", "self._contexts_active == True",
                  "all(oval(_it1, i).$n_resume == old(oval(self._contexts, i).$n_resume) + 1 for i in range(0, int(_i1)))",
                  "all(oval(_it1, i).$n_resume == old(oval(self._contexts, i).$n_resume) for i in range(int(_i1), olen(_it1)))",
                  "all(oval(_it1, i).$n_tresume <= None.$n_clock and oval(_it1, i).$n_tresume > old(None.$n_clock) for i in range(0, int(_i1)))",
                  "all(all(implies(i < j, oval(_it1, i).$n_tresume < oval(_it1, j).$n_tresume) for i in range(0, j)) for j in range(0, int(_i1)))",
                  "None.$n_clock >= old(None.$n_clock)",
                  "all(implies(old(alloc(t)), task_frozen(t)) for t in objs(AsyncTask) if t is not self)",
                  "task_frozen_but_active(self)", "self.running == False",
                  "unchanged('$olen', '$okey', '$oval', '$dhas')",
                  "inv()", "two_state('old')",
                  "error is None or alloc(error)",
              ]},
              labels={"site_assumes_after": {"self._accept_error": ["self._contexts_active == old(self._contexts_active)"]},
                      ("post", 0): "noop-when-already-active", ("post", 2): "each-context-resumed-exactly-once",
                      ("post", 3): "resumed-in-entry-order"}))
    reg.macro("task_frozen_but_active", ["t"],
              "t.iteration_index is old(t.iteration_index) and t._generator is old(t._generator) and "
              "t._last_value is old(t._last_value) and t._dependencies is old(t._dependencies) and "
              "len(t._dependencies) == old(len(t._dependencies)) and "
              "all(t._dependencies[j] is old(t._dependencies[j]) for j in range(0, len(t._dependencies))) and "
              "t._dependencies_scheduled == old(t._dependencies_scheduled) and t._contexts is old(t._contexts)")
    reg.macro("task_frozen_but_ctx", ["t"], "task_frozen_but_active(t)")
    reg.pyfuncs["dynattr"] = lambda env, o, n: z3.Select(env.heap.sel("$dynattr", o), n)
    register2(reg, repo)


def register2(reg, repo):
    from pyvc.contract import Contract as C
    X = "contexts."
    reg.field_types[("LocalTaskSchedulerState", "current")] = "TaskScheduler"
    reg.global_values[("scheduler", "_state")] = lambda eng: smt.const("glob:_state")
    reg.global_values["asynq.scheduler._state"] = lambda eng: smt.const("glob:_state")
    ACTIVE = "_state.current.active_task"

    reg.add(C("asynq_to_async.is_asyncio_mode", params=[], modifies=[], trusted=True,
              post=["result == truthy(_asyncio_mode.cv_value)"], xpost=None, returns_type="bool",
              note="ContextVar.get(): the asyncio-mode flag of the current context (body: one call, checked under C15)"))
    reg.global_calls["is_asyncio_mode"] = "asynq_to_async.is_asyncio_mode"

    reg.add(C(X + "enter_context", modifies=["$dget", "$dhas", "$olen", "$okey", "$oval"],
              requires=["alloc(context)", "isinstance(_state.current, TaskScheduler)",
                        "implies(" + ACTIVE + " is not None, not dhas(" + ACTIVE + "._contexts, ident(context)))"],
              types={"active_task": "AsyncTask"},
              calls={"active_task._enter_context": "async_task.AsyncTask._enter_context"},
              labels={"noattrcheck": True, "nullable:active_task": True},
              post=["result is old(" + ACTIVE + ")",
                    "implies(result is None, unchanged('$dget', '$dhas', '$olen', '$okey', '$oval'))",
                    "implies(result is not None, olen(result._contexts) == old(olen(result._contexts)) + 1 and "
                    "oval(result._contexts, old(olen(result._contexts))) is context)"],
              xpost=None))
    reg.add(C(X + "leave_context", modifies=["$dget", "$dhas", "$olen", "$okey", "$oval"],
              types={"active_task": "AsyncTask"}, labels={"nullable:active_task": True},
              calls={"active_task._leave_context": "async_task.AsyncTask._leave_context"},
              post=["implies(active_task is None, unchanged('$dget', '$dhas', '$olen', '$okey', '$oval'))",
                    "implies(active_task is not None, not dhas(active_task._contexts, ident(context)))"],
              xpost=["active_task is not None", "isinstance(exc, KeyError)",
                     "not dhas(active_task._contexts, ident(context))"]))

    # user-overridable pause/resume: dynamic dispatch
    reg.add(C(X + "AsyncContext.resume!virtual", params=["self"], kind="method", modifies="*", trusted=True,
              post=list(reg.contracts["env.ctx.resume"].post), xpost=list(reg.contracts["env.ctx.resume"].xpost),
              note="= env.ctx.resume with ctx := self"))
    reg.add(C(X + "AsyncContext.pause!virtual", params=["self"], kind="method", modifies="*", trusted=True,
              post=list(reg.contracts["env.ctx.pause"].post), xpost=list(reg.contracts["env.ctx.pause"].xpost)))
    for n in ("resume", "pause"):
        c = reg.contracts[X + "AsyncContext.%s!virtual" % n]
        c.post = [p.replace("ctx", "self") for p in c.post]
        c.xpost = [p.replace("ctx", "self") for p in c.xpost]

    reg.add(C(X + "AsyncContext.__enter__", modifies="*",
              requires=["alloc(self)", "isinstance(_state.current, TaskScheduler)",
                        "implies(" + ACTIVE + " is not None, not dhas(" + ACTIVE + "._contexts, ident(self)))"],
              post=["result is self", "callcount('contexts.AsyncContext.resume!virtual') == 1",
                    "implies(not old(truthy(_asyncio_mode.cv_value)), callcount('contexts.enter_context') == 1)",
                    "call_before('contexts.enter_context', 'contexts.AsyncContext.resume!virtual')"],
              xpost=["callcount('contexts.AsyncContext.resume!virtual') == 1",
                     # the block is not entered, so __exit__ will not run: a failed entry must not leave the context registered
                     "implies(not old(truthy(_asyncio_mode.cv_value)), callcount('contexts.leave_context') == 1 and "
                     "call_before('contexts.AsyncContext.resume!virtual', 'contexts.leave_context'))",
                     "implies(not old(truthy(_asyncio_mode.cv_value)) and old(" + ACTIVE + ") is not None, "
                     "not dhas(old(" + ACTIVE + ")._contexts, ident(self)))"],
              calls={"leave_context": "contexts.leave_context"},
              labels={("post", 1): "exactly-one-resume-on-entry", ("post", 3): "registered-before-resume",
                      ("xpost", 1): "failed-entry-unregisters", ("xpost", 2): "failed-entry-leaves-the-task-without-the-context",
                      "site_assumes": {"leave_context": ["self._active_task is None or isinstance(self._active_task, AsyncTask)"]}}))
    STILL_ACTIVE = ("old(truthy(_asyncio_mode.cv_value)) or old(self._active_task) is None or "
                    "old(self._active_task._contexts_active) == True")
    reg.add(C(X + "AsyncContext.__exit__", modifies="*", types={"self._active_task": "AsyncTask"},
              calls={"leave_context": "contexts.leave_context"},
              labels={"noattrcheck": True, ("post", 0): "exactly-one-pause-on-exit", ("post", 1): "no-second-pause-for-a-suspended-task",
                      "site_assumes": {"leave_context": ["self._active_task is None or isinstance(self._active_task, AsyncTask)"]}},
              # the one pause that ends the block - unless the block is being left because a suspended task's generator is closed:
              # then the scheduler has paused the task's contexts already (task._contexts_active is False) and a second pause
              # would break the alternation (the recorded C06 finding, repaired)
              post=["implies(" + STILL_ACTIVE + ", callcount('contexts.AsyncContext.pause!virtual') == 1)",
                    "implies(not (" + STILL_ACTIVE + "), callcount('contexts.AsyncContext.pause!virtual') == 0)",
                    "call_before('contexts.leave_context', 'contexts.AsyncContext.pause!virtual')"],
              xpost=["callcount('contexts.AsyncContext.pause!virtual') == 1 or callcount('contexts.leave_context') == 1"]))

    reg.add(C(X + "NonAsyncContext.__enter__", modifies=["$dget", "$dhas", "$olen", "$okey", "$oval", "_active_task"],
              requires=["alloc(self)", "isinstance(_state.current, TaskScheduler)",
                        "implies(" + ACTIVE + " is not None, not dhas(" + ACTIVE + "._contexts, ident(self)))"],
              post=["implies(not truthy(_asyncio_mode.cv_value), self._active_task is old(" + ACTIVE + "))"], xpost=None))
    reg.add(C(X + "NonAsyncContext.__exit__", modifies=["$dget", "$dhas", "$olen", "$okey", "$oval"],
              calls={"leave_context": "contexts.leave_context"},
              labels={"noattrcheck": True,
                      "site_assumes": {"leave_context": ["self._active_task is None or isinstance(self._active_task, AsyncTask)"]}},
              post=[], xpost=["isinstance(exc, KeyError)"]))
    reg.add(C(X + "NonAsyncContext.pause", modifies=[], post=["False"], xpost=["isinstance(exc, AssertionError)"],
              labels={"noattrcheck": True, ("post", 0): "always-fails-the-task"}))
    reg.add(C(X + "NonAsyncContext.resume", modifies=[], post=["False"], xpost=["isinstance(exc, AssertionError)"],
              labels={"noattrcheck": True, ("post", 0): "always-fails-the-task"}))

    # ---- scoped values ------------------------------------------------------------------------------------
    SV = "scoped_value."
    reg.add(C(SV + "AsyncScopedValue.__init__", modifies=["_value"], requires=["not isinstance(self, FutureBase)"], post=["updated('_value', self, default)"], xpost=None,
              two_state=False))
    reg.add(C(SV + "AsyncScopedValue.get", modifies=[], post=["result is self._value"], xpost=None))
    reg.add(C(SV + "AsyncScopedValue.__call__", modifies=[], post=["result is self._value"], xpost=None))
    reg.add(C(SV + "AsyncScopedValue.set", modifies=["_value"], post=["updated('_value', self, value)"], xpost=None,
              requires=["not isinstance(self, FutureBase)"]))
    reg.add(C(SV + "AsyncScopedValue.override", modifies=["_target", "_value", "_old_value", "$alloc"],
              post=["fresh(result)", "exact(result, _AsyncScopedValueOverrideContext)", "result._target is self",
                    "result._value is value", "only(result, '_target', '_value', '_old_value')"], xpost=None,
              returns_type="_AsyncScopedValueOverrideContext"))
    reg.add(C(SV + "_AsyncScopedValueOverrideContext.__init__", modifies=["_target", "_value", "_old_value"],
              requires=["not isinstance(self, FutureBase)"],
              post=["self._target is target", "self._value is value", "self._old_value is None",
                    "only(self, '_target', '_value', '_old_value')"], xpost=None, two_state=False))
    reg.add(C(SV + "_AsyncScopedValueOverrideContext.resume", modifies=["_value", "_old_value"],
              requires=["self._target is not self", "not isinstance(self._target, FutureBase)"],
              post=["self._old_value is old(self._target._value)", "self._target._value is old(self._value)",
                    "only(self, '_old_value')", "only(self._target, '_value')"], xpost=None,
              labels={("post", 0): "saves-the-current-value-at-resume", ("post", 1): "installs-the-override"}))
    reg.add(C(SV + "_AsyncScopedValueOverrideContext.pause", modifies=["_value"],
              requires=["not isinstance(self._target, FutureBase)"],
              post=["self._target._value is old(self._old_value)", "only(self._target, '_value')"], xpost=None,
              labels={("post", 0): "restores-the-saved-value"}))
    reg.add(C(SV + "_AsyncPropertyOverrideContext.__init__", modifies=["_target", "_property_name", "_value", "_old_value"],
              requires=["not isinstance(self, FutureBase)"],
              post=["self._target is target", "self._property_name is property_name", "self._value is value",
                    "self._old_value is None", "only(self, '_target', '_property_name', '_value', '_old_value')"],
              xpost=None, two_state=False))
    reg.add(C(SV + "_AsyncPropertyOverrideContext.resume", modifies=["_old_value", "$dynattr"],
              post=["self._old_value is old(dynattr(self._target, self._property_name))",
                    "dynattr(self._target, self._property_name) is self._value",
                    "only(self, '_old_value')"], xpost=None,
              labels={("post", 0): "saves-the-current-value-at-resume", ("post", 1): "installs-the-override"}))
    reg.add(C(SV + "_AsyncPropertyOverrideContext.pause", modifies=["$dynattr"],
              post=["dynattr(self._target, self._property_name) is old(self._old_value)"], xpost=None,
              labels={("post", 0): "restores-the-saved-value"}))
