"""Scenario battery for C09 (calling conventions), C15 (asyncio), C16 (threads), C18 (diagnostics),
C19 (mock.patch), C20 (debug options)."""
import itertools
import random
from scenarios import scenario, fail


def _reset():
    from asynq import scheduler, batching, profiler
    scheduler.reset()
    batching._debug_batch_state.batches.clear()
    profiler.reset()


# ---------------------------------------------------------------------------
# C09

@scenario(["decorators."], ["C09"])
def conventions_agree(req):
    """decorator (asynq, asynq pure, async_proxy, sync_fn pair, make_async_decorator, deduplicate, aretry, alru_cache, acached_per_instance) x binding (function, method via instance / class / subclass, classmethod, staticmethod) x argument pattern x body kind: sync call, .asynq().value(), yielding .asynq() and async_call agree and see the same bound instance/class and arguments; classification helpers are consistent."""
    import asynq
    from asynq import asynq as A, async_proxy, async_call, batching, ConstFuture, tools
    from asynq.decorators import (is_async_fn, is_pure_async_fn, has_async_fn, get_async_fn, get_async_or_sync_fn,
                                  make_async_decorator)
    log = []

    def body_plain(tag):
        def f(*args, **kwargs):
            log.append((tag, args, tuple(sorted(kwargs.items()))))
            return (tag, args, tuple(sorted(kwargs.items())))
        return f

    def body_gen(tag):
        def f(*args, **kwargs):
            log.append((tag, args, tuple(sorted(kwargs.items()))))
            x = yield batching.DebugBatchItem("k", 1)
            return (tag, args, tuple(sorted(kwargs.items())))
        return f

    def conventions(fn, args, kwargs, pure=False):
        out = {}

        @A()
        def yielder():
            r = yield (fn(*args, **kwargs) if pure else fn.asynq(*args, **kwargs))
            return r

        @A()
        def via_async_call():
            r = yield async_call.asynq(fn, *args, **kwargs)
            return r
        for name, thunk in [("sync", (lambda: fn(*args, **kwargs).value()) if pure else (lambda: fn(*args, **kwargs))),
                            ("value", (lambda: fn(*args, **kwargs).value()) if pure else (lambda: fn.asynq(*args, **kwargs).value())),
                            ("yield", yielder), ("async_call", via_async_call)]:
            _reset()
            del log[:]
            try:
                out[name] = ("val", thunk(), list(log))
            except Exception as e:
                out[name] = ("exc", type(e).__name__, list(log))
        return out

    def check(label, fn, args, kwargs, want, pure=False, sync_differs=None):
        res = conventions(fn, args, kwargs, pure)
        for name, r in res.items():
            w = sync_differs if (sync_differs is not None and name == "sync") else want
            if r[0] != "val" or r[1] != w:
                return fail("calling conventions disagree / wrong bound arguments", case=label, convention=name, got=repr(r[:2]), want=repr(w))
            if sync_differs is None or name != "sync":
                if len(r[2]) != 1:
                    return fail("body must run exactly once per call", case=label, convention=name, runs=len(r[2]))
        return None
    argpats = [((1,), {}), ((1, 2), {}), ((1,), {"y": 5}), ((), {"x": 1, "y": 2})]
    for mk_body, bname in ((body_plain, "plain"), (body_gen, "gen")):
        # plain functions
        for deco_name, deco in [("asynq", lambda f: A()(f)),
                                ("dedup", lambda f: tools.deduplicate()(A()(f))),
                                ("aretry", lambda f: tools.aretry(KeyError, max_tries=2, sleep=0)(A()(f))),
                                ("make_async_decorator", lambda f: make_async_decorator(A()(f), A()(f).asynq, "wrap"))]:
            if deco_name in ("dedup",):
                def body(x, y=0, _b=mk_body("f")):
                    return (yield from _b(x, y=y)) if bname == "gen" else _b(x, y=y)
                if bname == "gen":
                    def body(x, y=0):
                        log.append(("f", (x,), (("y", y),)))
                        yield batching.DebugBatchItem("k", 1)
                        return ("f", (x,), (("y", y),))
                else:
                    def body(x, y=0):
                        log.append(("f", (x,), (("y", y),)))
                        return ("f", (x,), (("y", y),))
                fn = deco(body)
                r = check("%s/%s/function" % (deco_name, bname), fn, (1,), {"y": 5}, ("f", (1,), (("y", 5),)))
                if r:
                    return r
                continue
            fn = deco(mk_body("f"))
            for args, kwargs in argpats:
                r = check("%s/%s/function%r" % (deco_name, bname, (args, kwargs)), fn, args, kwargs,
                          ("f", args, tuple(sorted(kwargs.items()))))
                if r:
                    return r
            if not is_async_fn(fn) or not has_async_fn(fn) or get_async_fn(fn) is None or is_pure_async_fn(fn):
                return fail("classification helpers inconsistent for a decorated function", decorator=deco_name)
        # pure
        pf = A(pure=True)(mk_body("p"))
        r = check("pure/%s" % bname, pf, (1,), {"y": 2}, ("p", (1,), (("y", 2),)), pure=True)
        if r:
            return r
        if not is_pure_async_fn(pf) or not is_async_fn(pf) or get_async_fn(pf) is not pf or has_async_fn(pf):
            return fail("classification of a pure async function")
        # sync_fn pair
        pair = A(sync_fn=lambda *a, **k: ("sync_fn", a, tuple(sorted(k.items()))))(mk_body("f"))
        r = check("pair/%s" % bname, pair, (1,), {"y": 2}, ("f", (1,), (("y", 2),)), sync_differs=("sync_fn", (1,), (("y", 2),)))
        if r:
            return r

        # proxies at function level
        target = A()(mk_body("t"))
        px = async_proxy()(lambda *a, **k: target.asynq(*a, **k))
        r = check("async_proxy/%s" % bname, px, (1,), {"y": 2}, ("t", (1,), (("y", 2),)))
        if r:
            return r
        ppx = async_proxy(sync_fn=lambda *a, **k: ("sync_px", a, tuple(sorted(k.items()))))(lambda *a, **k: target.asynq(*a, **k))
        r = check("async_proxy(sync_fn)/%s" % bname, ppx, (1,), {"y": 2}, ("t", (1,), (("y", 2),)), sync_differs=("sync_px", (1,), (("y", 2),)))
        if r:
            return r

        # bindings
        class Base:
            @A()
            def meth(self, *a, **k):
                return mk_plain_or_gen(self, "meth", a, k)

            @classmethod
            @A()
            def cmeth(cls, *a, **k):
                return mk_plain_or_gen(cls, "cmeth", a, k)

            @staticmethod
            @A()
            def smeth(*a, **k):
                return mk_plain_or_gen(None, "smeth", a, k)

            def _sync_meth(self, *a, **k):
                return ("sync", self, a)

            @A(sync_fn=_sync_meth)
            def pmeth(self, *a, **k):
                return mk_plain_or_gen(self, "pmeth", a, k)

            @staticmethod
            def _sync_static(*a, **k):
                return ("sync_static", a)

            @staticmethod
            @A(sync_fn=lambda *a, **k: ("sync_static", a))
            def psmeth(*a, **k):
                return mk_plain_or_gen(None, "psmeth", a, k)

            @classmethod
            @A(sync_fn=lambda cls, *a, **k: ("sync_class", cls, a))
            def pcmeth(cls, *a, **k):
                return mk_plain_or_gen(cls, "pcmeth", a, k)

            @async_proxy()
            def proxied(self, *a, **k):
                return self.meth.asynq(*a, **k)

            def _sync_proxied(self, *a, **k):
                return ("sync_px", self, a)

            @async_proxy(sync_fn=_sync_proxied)
            def pproxied(self, *a, **k):
                return self.meth.asynq(*a, **k)

            @async_proxy(pure=True)
            def pure_proxied(self, *a, **k):
                return self.meth.asynq(*a, **k)

            # the decorator applied over a staticmethod / classmethod object
            @A()
            @staticmethod
            def smeth2(*a, **k):
                return mk_plain_or_gen(None, "smeth2", a, k)

            @A()
            @classmethod
            def cmeth2(cls, *a, **k):
                return mk_plain_or_gen(cls, "cmeth2", a, k)

            @staticmethod
            def _sync_s2(*a, **k):
                return ("sync_s2", a)

            @A(sync_fn=_sync_s2)
            @staticmethod
            def psmeth2(*a, **k):
                return mk_plain_or_gen(None, "psmeth2", a, k)

            @classmethod
            def _sync_c2(cls, *a, **k):
                return ("sync_c2", cls, a)

            @A(sync_fn=_sync_c2)
            @classmethod
            def pcmeth2(cls, *a, **k):
                return mk_plain_or_gen(cls, "pcmeth2", a, k)

        def mk_plain_or_gen(bound, tag, a, k):
            log.append((tag, a, tuple(sorted(k.items()))))
            return (tag, bound, a, tuple(sorted(k.items())))

        class Sub(Base):
            pass

        class Falsy(Base):
            def __len__(self):
                return 0          # a falsy instance is still a bound instance
        for cls in (Base, Sub, Falsy):
            inst = cls()
            cases = [("meth via instance", inst.meth, (1,), {"y": 2}, ("meth", inst, (1,), (("y", 2),)), None),
                     ("meth via class", cls.meth, (inst, 1), {}, ("meth", inst, (1,), ()), None),
                     ("classmethod via class", cls.cmeth, (1,), {}, ("cmeth", cls, (1,), ()), None),
                     ("classmethod via instance", inst.cmeth, (1,), {}, ("cmeth", cls, (1,), ()), None),
                     ("staticmethod via class", cls.smeth, (1, 2), {}, ("smeth", None, (1, 2), ()), None),
                     ("staticmethod via instance", inst.smeth, (1, 2), {}, ("smeth", None, (1, 2), ()), None),
                     ("sync_fn pair method via instance", inst.pmeth, (1,), {}, ("pmeth", inst, (1,), ()), ("sync", inst, (1,))),
                     ("sync_fn pair staticmethod via instance", inst.psmeth, (1,), {}, ("psmeth", None, (1,), ()), ("sync_static", (1,))),
                     ("sync_fn pair staticmethod via class", cls.psmeth, (1,), {}, ("psmeth", None, (1,), ()), ("sync_static", (1,))),
                     ("sync_fn pair classmethod via instance", inst.pcmeth, (1,), {}, ("pcmeth", cls, (1,), ()), ("sync_class", cls, (1,))),
                     ("sync_fn pair classmethod via class", cls.pcmeth, (1,), {}, ("pcmeth", cls, (1,), ()), ("sync_class", cls, (1,))),
                     ("async_proxy method", inst.proxied, (1,), {}, ("meth", inst, (1,), ()), None),
                     ("async_proxy method via class", cls.proxied, (inst, 1), {}, ("meth", inst, (1,), ()), None),
                     ("async_proxy(sync_fn) method via instance", inst.pproxied, (1,), {"y": 3}, ("meth", inst, (1,), (("y", 3),)), ("sync_px", inst, (1,))),
                     ("async_proxy(sync_fn) method via class", cls.pproxied, (inst, 1), {}, ("meth", inst, (1,), ()), ("sync_px", inst, (1,))),
                     ("asynq over staticmethod via instance", inst.smeth2, (1,), {}, ("smeth2", None, (1,), ()), None),
                     ("asynq over staticmethod via class", cls.smeth2, (1,), {}, ("smeth2", None, (1,), ()), None),
                     ("asynq over classmethod via instance", inst.cmeth2, (1,), {}, ("cmeth2", cls, (1,), ()), None),
                     ("asynq over classmethod via class", cls.cmeth2, (1,), {}, ("cmeth2", cls, (1,), ()), None),
                     ("sync_fn pair over staticmethod via instance", inst.psmeth2, (1,), {}, ("psmeth2", None, (1,), ()), ("sync_s2", (1,))),
                     ("sync_fn pair over staticmethod via class", cls.psmeth2, (1,), {}, ("psmeth2", None, (1,), ()), ("sync_s2", (1,))),
                     ("sync_fn pair over classmethod via instance", inst.pcmeth2, (1,), {}, ("pcmeth2", cls, (1,), ()), ("sync_c2", cls, (1,))),
                     ("sync_fn pair over classmethod via class", cls.pcmeth2, (1,), {}, ("pcmeth2", cls, (1,), ()), ("sync_c2", cls, (1,)))]
            for label, fn, args, kwargs, want, syncw in cases:
                r = check("%s (%s)" % (label, cls.__name__), fn, args, kwargs, want, sync_differs=syncw)
                if r:
                    return r
                if not is_async_fn(fn) or get_async_or_sync_fn(fn) is None:
                    return fail("classification of a bound async callable", case=label)
    if is_async_fn(len) or has_async_fn(len) or get_async_fn(len) is not None or get_async_or_sync_fn(len) is not len:
        return fail("classification of a plain callable")
    w = get_async_fn(len, wrap_if_none=True)
    if w([1, 2]).value() != 2:
        return fail("get_async_fn(wrap_if_none=True)")
    return None


# ---------------------------------------------------------------------------
# C15

@scenario(["asynq_to_async.", "decorators.convert_asynq_to_async", "decorators.PureAsyncDecorator", "decorators.AsyncDecorator"], ["C15"])
def asyncio_matches_asynq(req):
    """Batch-free programs (trees of tasks, constants, None, nested structures, awaitables returning exception objects as values, raises and try/except): await fn.asyncio() equals fn(); all awaitables yielded together finish before a failure is raised, first in structure order; asyncio-mode flag confined; sync call inside asyncio mode raises RuntimeError."""
    import asyncio
    from asynq import asynq as A, ConstFuture, result
    from asynq.asynq_to_async import is_asyncio_mode
    finished = []

    @A()
    def leaf(v):
        return v

    @A()
    def returns_exc_object(v):
        return ValueError(v)          # an exception instance as a normal value

    @A()
    def slow_ok(v):
        yield leaf.asynq(1)
        yield leaf.asynq(2)
        finished.append(v)
        return v

    @A()
    def bad(v):
        yield leaf.asynq(v)
        raise KeyError(v)

    @A()
    def prog(kind):
        if kind == 0:
            r = yield (leaf.asynq(1), [leaf.asynq(2), None, ConstFuture(3)], {"a": leaf.asynq(4), "b": (leaf.asynq(5),)})
        elif kind == 1:
            r = yield [returns_exc_object.asynq(1), leaf.asynq(2)]
            r = [type(r[0]).__name__, r[1]]
        elif kind == 2:
            try:
                yield [slow_ok.asynq("x"), bad.asynq(1), bad.asynq(2), slow_ok.asynq("y")]
                r = "no error"
            except KeyError as e:
                r = ("caught", e.args[0], sorted(finished))
        elif kind == 3:
            v = yield leaf.asynq(7)
            result(v + 1)
            return
        elif kind == 4:
            r = yield None
        elif kind == 5:
            r = yield {"k": returns_exc_object.asynq(2)}
            r = type(r["k"]).__name__
        elif kind == 6:
            try:
                yield {"a": slow_ok.asynq("x"), "b": bad.asynq(1), "c": slow_ok.asynq("y"), "d": bad.asynq(2)}
                r = "no error"
            except KeyError as e:
                r = ("caught", e.args[0], sorted(finished))
        else:
            try:
                yield (slow_ok.asynq("x"), [bad.asynq(3), slow_ok.asynq("y")], {"k": slow_ok.asynq("z")})
                r = "no error"
            except KeyError as e:
                r = ("caught", e.args[0], sorted(finished))
        return r
    for kind in range(8):
        del finished[:]
        _reset()
        try:
            want = ("val", prog(kind))
        except Exception as e:
            want = ("exc", type(e).__name__)
        del finished[:]
        try:
            got = ("val", asyncio.run(prog.asyncio(kind)))
        except Exception as e:
            got = ("exc", type(e).__name__)
        if got != want:
            return fail("await fn.asyncio() differs from fn()", program=kind, asynq=repr(want), asyncio=repr(got))
        if is_asyncio_mode():
            return fail("asyncio-mode flag leaked out of the coroutine", program=kind)

    @A()
    def calls_sync():
        return leaf(1)
    try:
        asyncio.run(calls_sync.asyncio())
        return fail("a synchronous call of an @asynq() function in asyncio mode must raise RuntimeError")
    except RuntimeError:
        pass
    if is_asyncio_mode():
        return fail("asyncio-mode flag still on after a failure")
    return None


# ---------------------------------------------------------------------------
# C16

@scenario(["scheduler.LocalTaskSchedulerState", "batching.LocalDebugBatchState", "profiler."], ["C16"])
def threads_do_not_interfere(req):
    """4 threads each running a program with DebugBatchItem kinds and contexts, small switch interval: same results, batch compositions and context events as when run alone; schedulers and active tasks are per thread."""
    import sys
    import threading
    from asynq import asynq as A, batching, scheduler, contexts

    def program(tid):
        log = []

        class C(contexts.AsyncContext):
            def resume(self):
                log.append("r")

            def pause(self):
                log.append("p")

        @A()
        def get(v):
            with C():
                r = yield batching.DebugBatchItem("k", (tid, v))
            if scheduler.get_active_task() is None:
                log.append("no-active-task")
            return r

        @A()
        def root():
            r = yield [get.asynq(i) for i in range(5)]
            r2 = yield [get.asynq(i) for i in range(3)]
            return r, r2
        flushes = []
        s = scheduler.get_scheduler()
        s.on_before_batch_flush.subscribe(lambda b: flushes.append(sorted(i._result for i in b.items)))
        res = root()
        return res, list(flushes), list(log), id(s)
    solo = program(0)
    old = sys.getswitchinterval()
    sys.setswitchinterval(1e-6)
    out = {}
    try:
        def run(tid):
            for _ in range(10):
                out.setdefault(tid, []).append(program(tid))
        ths = [threading.Thread(target=run, args=(t,)) for t in range(1, 5)]
        for t in ths:
            t.start()
        for t in ths:
            t.join(60)
    finally:
        sys.setswitchinterval(old)
    sched_ids = set()
    for tid, runs in out.items():
        for res, flushes, log, sid in runs:
            want_res = ([(tid, i) for i in range(5)], [(tid, i) for i in range(3)])
            if res != want_res:
                return fail("a thread observed another thread's results", thread=tid, got=repr(res))
            if flushes != [[(tid, i) for i in range(5)], [(tid, i) for i in range(3)]]:
                return fail("batch composition differs from the solo run", thread=tid, flushes=repr(flushes))
            if log != solo[2]:
                return fail("context events differ from the solo run", thread=tid)
        sched_ids.add(runs[0][3])
    if len(sched_ids) != 4 or solo[3] in sched_ids:
        return fail("threads must have their own scheduler")
    return None


# ---------------------------------------------------------------------------
# C18

def _ref_filter(tb_list):
    """reference from the statement: collapse only complete runs of one replacement's pattern list"""
    TASK_CONTINUE = (["asynq.async_task.AsyncTask._continue", "asynq.async_task.AsyncTask._continue_on_generator",
                      "asynq.async_task.AsyncTask._continue_on_generator"], "___asynq_continue___")
    FUTURE_BASE = (["asynq.decorators.AsyncDecorator.__call__", "asynq.futures.FutureBase.value", "asynq.futures.FutureBase.value",
                    "asynq.futures.FutureBase.raise_if_error", "reraise", "six.reraise", "reraise", "value"],
                   "___asynq_future_raise_if_error___")
    CALL_PURE = (["asynq.decorators.AsyncDecorator.asynq", "asynq.decorators.AsyncProxyDecorator._call_pure",
                  "asynq.decorators.AsyncProxyDecorator._call_pure", "asynq.decorators.AsyncProxyDecorator._call_pure",
                  "asynq.decorators.async_call"], "___asynq_call_pure___")
    out, i = [], 0
    while i < len(tb_list):
        for pats, rep in (TASK_CONTINUE, FUTURE_BASE, CALL_PURE):
            if i + len(pats) <= len(tb_list) and all(p in tb_list[i + j] for j, p in enumerate(pats)):
                out.append("  " + rep + "\n")
                i += len(pats)
                break
        else:
            out.append(tb_list[i])
            i += 1
    return out


@scenario(["debug.filter_traceback", "debug.format_error", "debug.extract_tb", "debug.format_tb"], ["C18"])
def diagnostics_filter_and_format(req):
    """filter_traceback on random sequences assembled from boilerplate lines (complete runs, partial runs at every position, prefix of one pattern followed by the tail of another) and foreign lines equals the reference; format_error accepts any exception with or without traceback."""
    from asynq import debug
    seed = int((req or {}).get("seed", 0) or 0)
    rnd = random.Random(99 + seed)
    P1 = ["asynq.async_task.AsyncTask._continue", "asynq.async_task.AsyncTask._continue_on_generator",
          "asynq.async_task.AsyncTask._continue_on_generator"]
    P2 = ["asynq.decorators.AsyncDecorator.__call__", "asynq.futures.FutureBase.value", "asynq.futures.FutureBase.value",
          "asynq.futures.FutureBase.raise_if_error", "reraise", "six.reraise", "reraise", "value"]
    P3 = ["asynq.decorators.AsyncDecorator.asynq", "asynq.decorators.AsyncProxyDecorator._call_pure",
          "asynq.decorators.AsyncProxyDecorator._call_pure", "asynq.decorators.AsyncProxyDecorator._call_pure",
          "asynq.decorators.async_call"]

    def line(s, n=[0]):
        n[0] += 1
        return '  File "x.py", line %d, in %s\n' % (n[0], s)
    pats = [P1, P2, P3]
    cases = []
    for p in pats:
        cases.append([line(x) for x in p])
        for k in range(1, len(p)):
            cases.append([line(x) for x in p[:k]])
            cases.append([line(x) for x in p[:k]] + [line("user_code")])
            for q in pats:
                if q is not p:
                    for off in range(0, len(q)):
                        cases.append([line(x) for x in p[:k]] + [line(x) for x in q[off:]])
                        if k == off:
                            cases.append([line("foo")] + [line(x) for x in p[:k]] + [line(x) for x in q[off:]] + [line("bar")])
    for _ in range(400):
        seq = []
        for _ in range(rnd.randrange(1, 5)):
            p = rnd.choice(pats)
            c = rnd.random()
            if c < 0.4:
                seq += [line(x) for x in p]
            elif c < 0.7:
                a = rnd.randrange(0, len(p))
                b = rnd.randrange(a, len(p) + 1)
                seq += [line(x) for x in p[a:b]]
            else:
                seq += [line("foreign_%d" % rnd.randrange(100))]
        cases.append(seq)
    for tb in cases:
        got = debug.filter_traceback(list(tb))
        want = _ref_filter(list(tb))
        if got != want:
            return fail("filter_traceback collapsed an incomplete run / lost or reordered lines",
                        lines=[l.split(" in ")[-1].strip() for l in tb], got=[l.strip() for l in got], want=[l.strip() for l in want])
    # format_error
    try:
        1 / 0
    except ZeroDivisionError as e:
        with_tb = e
    for err in (None, ValueError("x"), with_tb, KeyboardInterrupt(), KeyError("k")):
        for tb in (None, getattr(with_tb, "__traceback__", None)):
            try:
                r = debug.format_error(err, tb=tb)
            except Exception as ex:
                return fail("format_error raised", error=repr(err), exc=repr(ex))
            if err is None and r is not None:
                return fail("format_error(None) must be None")
            if err is not None and not isinstance(r, str):
                return fail("format_error must return a string", error=repr(err))
    return None


@scenario(["futures.FutureBase.__repr__", "async_task.AsyncTask.__str__", "batching.BatchBase.__str__", "scheduler.TaskScheduler.__str__",
           "generator._AsyncGenerator.__repr__", "scoped_value.", "async_task.AsyncTask.traceback", "debug.format_asynq_stack"], ["C18"])
def diagnostics_total_and_stack(req):
    """str/repr/dump of futures, tasks, batches, items, scheduler, scoped values, override contexts and async generators in pending / computed / failed / cancelled states never raise; format_asynq_stack lists the task and its creators outermost first; an exception crossing d task levels has one frame per level in call order."""
    import io, contextlib, traceback
    from asynq import asynq as A, batching, futures, scheduler, debug, scoped_value
    from asynq.generator import async_generator, Value
    _reset()

    @A()
    def t(v):
        r = yield batching.DebugBatchItem("k", v)
        return r

    @async_generator()
    def gen():
        yield Value(1)
    pend, done, failed = futures.Future(lambda: 1), futures.Future(lambda: 1), futures.Future(lambda: 1 // 0)
    done.value()
    try:
        failed.value()
    except ZeroDivisionError:
        pass
    selfref = futures.Future(lambda: 0)
    selfref.set_value(selfref)
    b_pending, b_flushed, b_cancelled = batching.DebugBatch("a"), batching.DebugBatch("b"), batching.DebugBatch("c")
    it_p = batching.DebugBatchItem("zz", 1)
    b_flushed.flush()
    b_cancelled.cancel(KeyError("c"))
    task_new, task_done = t.asynq(1), t.asynq(2)
    task_done.value()
    g_new, g_done = gen(), gen()
    list(x.value() for x in g_done)
    sv = scoped_value.AsyncScopedValue(object())
    objs = [pend, done, failed, selfref, futures.ConstFuture(1), futures.ErrorFuture(KeyError(1)), b_pending, b_flushed, b_cancelled,
            it_p, task_new, task_done, scheduler.get_scheduler(), sv, sv.override(2), scoped_value.async_override(sv, "_value", 3),
            g_new, g_done, Value(1)]
    buf = io.StringIO()
    for o in objs:
        for fn in (str, repr, debug.str, debug.repr):
            try:
                fn(o)
            except Exception as e:
                return fail("%s() of %s raised" % (fn.__name__, type(o).__name__), exc=repr(e))
        if hasattr(o, "dump"):
            try:
                with contextlib.redirect_stdout(buf):
                    o.dump()
            except Exception as e:
                return fail("dump() of %s raised" % type(o).__name__, exc=repr(e))
    # asynq stack and glued tracebacks
    stacks = {}

    def level(d, raise_at):
        @A()
        def f():
            stacks[d] = debug.format_asynq_stack()
            if d == raise_at:
                yield t.asynq(0)
                raise ValueError("deep")
            r = yield level(d + 1, raise_at).asynq()
            return r
        f.fn.__name__ = "level%d" % d
        return f
    for depth in (1, 2, 4):
        _reset()
        stacks.clear()
        try:
            level(0, depth)()
            return fail("exception lost")
        except ValueError as e:
            tb = traceback.extract_tb(e.__traceback__)
            names = [fr.name for fr in tb if fr.name == "f"]
            if len(names) < depth + 1:
                return fail("traceback must contain one frame per task level", depth=depth, frames=[fr.name for fr in tb])
        for d, st in stacks.items():
            if st is None or len(st) != d + 1:
                return fail("format_asynq_stack must list the task and each creator, outermost first", level=d, stack=repr(st))
    if debug.format_asynq_stack() is not None:
        return fail("format_asynq_stack outside a task must be None")
    # a task whose creator has already finished still lists that creator
    _reset()
    seen = {}

    @A()
    def child():
        seen["stack"] = debug.format_asynq_stack()
        yield t.asynq(1)
        return 1

    @A()
    def maker():
        yield t.asynq(0)
        return child.asynq()          # built here, returned un-awaited: maker finishes before child runs

    @A()
    def top():
        c = yield maker.asynq()
        r = yield c
        return r
    top()
    st = seen.get("stack")
    if st is None or len(st) != 3:
        return fail("format_asynq_stack must list the task and each task that created it, outermost first, also when a creator has finished",
                    stack=repr(st))
    return None


# ---------------------------------------------------------------------------
# C19

@scenario(["mock_."], ["C19"])
def mock_patch_all_conventions(req):
    """asynq.mock.patch / patch.object on module functions, methods, classmethods, staticmethods with default mocks, plain functions, bound methods, callable objects, new_callable, non-callables: every calling convention reaches the replacement with the given arguments; the original is restored after with-block (normal / exception), decorator, start/stop, stopall, nested and sequential patches."""
    import asyncio
    import sys
    import types
    import asynq
    from asynq import asynq as A, mock as amock
    mod = types.ModuleType("verif_mock_target")
    sys.modules["verif_mock_target"] = mod

    @A()
    def target(x, y=0):
        return ("orig", x, y)
    mod.target = target
    mod.CONST = 5

    class K:
        @A()
        def meth(self, x):
            return ("orig_meth", x)

        @classmethod
        @A()
        def cmeth(cls, x):
            return ("orig_cmeth", x)

        @staticmethod
        @A()
        def smeth(x):
            return ("orig_smeth", x)
    mod.K = K

    class Repl:
        def bound(self, *a, **k):
            return ("bound", a, tuple(sorted(k.items())))

        def __call__(self, *a, **k):
            return ("callable_obj", a, tuple(sorted(k.items())))

    def plain(*a, **k):
        return ("plain", a, tuple(sorted(k.items())))

    def all_conv(get_fn, args, kwargs):
        @A()
        def yielder():
            r = yield get_fn().asynq(*args, **kwargs)
            return r
        out = {"sync": get_fn()(*args, **kwargs), "value": get_fn().asynq(*args, **kwargs).value(), "yield": yielder(),
               "asyncio": asyncio.run(get_fn().asyncio(*args, **kwargs))}
        return out
    try:
        originals = {"target": mod.__dict__["target"], "meth": K.__dict__["meth"], "cmeth": K.__dict__["cmeth"],
                     "smeth": K.__dict__["smeth"], "CONST": mod.CONST}

        def restored(label):
            now = {"target": mod.__dict__["target"], "meth": K.__dict__["meth"], "cmeth": K.__dict__["cmeth"],
                   "smeth": K.__dict__["smeth"], "CONST": mod.CONST}
            for k, v in originals.items():
                if now[k] is not v:
                    return fail("original not restored after " + label, attribute=k)
        repls = [("plain function", plain, ("plain", (1,), (("y", 2),))),
                 ("bound method", Repl().bound, ("bound", (1,), (("y", 2),))),
                 ("callable object", Repl(), ("callable_obj", (1,), (("y", 2),)))]
        for rname, new, want in repls:
            with amock.patch("verif_mock_target.target", new):
                res = all_conv(lambda: mod.target, (1,), {"y": 2})
            if any(v != want for v in res.values()):
                return fail("calling conventions disagree under patch", replacement=rname, target="module function", results=repr(res))
            r = restored("with-block (%s)" % rname)
            if r:
                return r
            inst = K()
            want_m = (want[0], (1,), ())
            with amock.patch.object(K, "meth", new):
                res = all_conv(lambda: inst.meth if False else K().meth, (1,), {})
                via_class = K.meth(1) if rname != "plain function" else None
            ok_vals = {(want[0], (1,), ())}
            if rname == "plain function":
                # a plain function replacement is bound like a method: it sees the instance first
                if any(not (isinstance(v, tuple) and v[0] == "plain" and v[1][-1] == 1) for v in res.values()) or len({repr(v[1][1:]) for v in res.values()}) != 1:
                    return fail("calling conventions disagree under patch", replacement=rname, target="method", results=repr(res))
            elif any(v not in ok_vals for v in res.values()):
                return fail("calling conventions disagree under patch (bound replacement must not receive the instance)",
                            replacement=rname, target="method via instance", results=repr(res))
            r = restored("patch.object on a method (%s)" % rname)
            if r:
                return r
            with amock.patch.object(K, "smeth", new):
                res = all_conv(lambda: K.smeth, (1,), {})
                res_i = all_conv(lambda: K().smeth, (1,), {}) if rname != "plain function" else res
            if any(v != (want[0], (1,), ()) for v in list(res.values()) + list(res_i.values())):
                return fail("calling conventions disagree under patch", replacement=rname, target="staticmethod", results=repr((res, res_i)))
            r = restored("patch.object on a staticmethod (%s)" % rname)
            if r:
                return r
        # replacement kind x activation style (function decorator, class decorator, start/stop)
        for rname, new, want in repls:
            @amock.patch("verif_mock_target.target", new)
            def as_function_decorator():
                return all_conv(lambda: mod.target, (1,), {"y": 2})

            @amock.patch("verif_mock_target.target", new)
            class AsClassDecorator(object):
                def test_conventions(self):
                    return all_conv(lambda: mod.target, (1,), {"y": 2})

                def helper(self):
                    return mod.target

            def as_start_stop():
                p = amock.patch("verif_mock_target.target", new)
                p.start()
                try:
                    return all_conv(lambda: mod.target, (1,), {"y": 2})
                finally:
                    p.stop()
            for style, thunk in (("function decorator", as_function_decorator), ("class decorator", lambda: AsClassDecorator().test_conventions()),
                                 ("start/stop", as_start_stop)):
                try:
                    res = thunk()
                except Exception as e:
                    return fail("a calling convention fails under patch", replacement=rname, activation=style, error=repr(e)[:200])
                if any(v != want for v in res.values()):
                    return fail("calling conventions disagree under patch", replacement=rname, activation=style, results=repr(res))
                r = restored("%s (%s)" % (style, rname))
                if r:
                    return r
            if AsClassDecorator().helper() is not originals["target"]:
                return fail("class decorator patched outside its test methods / did not restore")

        @amock.patch("verif_mock_target.target")
        class DefaultInClass(object):
            def test_default(self, m):
                m.return_value = "in class"
                return all_conv(lambda: mod.target, (1,), {}), len(m.call_args_list)
        res, ncalls = DefaultInClass().test_default()
        if any(v != "in class" for v in res.values()) or ncalls != 4:
            return fail("class decorator with a default mock: conventions disagree", results=repr(res), calls=ncalls)
        r = restored("class decorator with default mock")
        if r:
            return r
        # default mock
        with amock.patch("verif_mock_target.target") as m:
            m.return_value = "mocked"
            res = all_conv(lambda: mod.target, (3,), {"y": 4})
            calls = m.call_args_list
        if any(v != "mocked" for v in res.values()) or len(calls) != 4 or any(c != ((3,), {"y": 4}) for c in calls):
            return fail("default mock must be reached by every calling convention with the given arguments", results=repr(res), calls=len(calls))
        # the same patcher activated twice (decorator form / start-stop-start): each activation's replacement is the one reached
        patcher = amock.patch("verif_mock_target.target")
        for round_ in (1, 2, 3):
            m = patcher.start()
            m.return_value = "round%d" % round_
            try:
                res = all_conv(lambda: mod.target, (round_,), {})
            finally:
                patcher.stop()
            if any(v != "round%d" % round_ for v in res.values()) or len(m.call_args_list) != 4:
                return fail("re-activating the same patcher: a calling convention reached an earlier activation's replacement",
                            activation=round_, results=repr(res), calls_on_this_mock=len(m.call_args_list))
        r = restored("repeated activation of one patcher")
        if r:
            return r

        @amock.patch("verif_mock_target.target")
        def decorated_default(m):
            m.return_value = "deco"
            return all_conv(lambda: mod.target, (1,), {}), len(m.call_args_list)
        for _ in range(2):
            res, ncalls = decorated_default()
            if any(v != "deco" for v in res.values()) or ncalls != 4:
                return fail("decorator form called twice: conventions disagree", results=repr(res), calls=ncalls)
        # non callable
        with amock.patch("verif_mock_target.CONST", 9):
            if mod.CONST != 9:
                return fail("a non-callable replacement must be installed as is")
        r = restored("non-callable patch")
        if r:
            return r
        # exit by exception, decorator, start/stop, stopall, nested, sequential
        try:
            with amock.patch("verif_mock_target.target", plain):
                raise KeyError("x")
        except KeyError:
            pass
        r = restored("with-block left by exception")
        if r:
            return r

        @amock.patch("verif_mock_target.target", plain)
        def decorated():
            return mod.target(1)
        if decorated()[0] != "plain":
            return fail("decorator form did not patch")
        r = restored("decorator return")
        if r:
            return r
        p = amock.patch("verif_mock_target.target", plain)
        p.start()
        p2 = amock.patch.object(K, "cmeth", plain)
        p2.start()
        if mod.target(1)[0] != "plain":
            return fail("start() did not patch")
        p.stop()
        amock.patch.stopall()
        r = restored("stop()/stopall()")
        if r:
            return r
        with amock.patch("verif_mock_target.target", plain):
            with amock.patch("verif_mock_target.target", Repl()):
                if mod.target(1)[0] != "callable_obj":
                    return fail("nested patch")
            if mod.target(1)[0] != "plain":
                return fail("inner patch exit must restore the outer replacement")
        r = restored("nested patches")
        if r:
            return r
        if mod.target(1) != ("orig", 1, 0):
            return fail("original behaviour not back")
    finally:
        sys.modules.pop("verif_mock_target", None)
    return None


# ---------------------------------------------------------------------------
# C20

@scenario(["_debug.", "debug.write", "profiler."], ["C20"])
def options_do_not_change_behaviour(req):
    """A program suite (several batch kinds, nested synchronous calls, failures, contexts, out-of-scheduler flushes) run under each single debug option and under random subsets, with a stubbed clock reporting microseconds to hours per step: same values/exceptions, same flush compositions, same context events as with all options off."""
    import io, contextlib
    from asynq import asynq as A, batching, debug, scheduler, contexts, futures
    import asynq.scheduler as S
    seed = int((req or {}).get("seed", 0) or 0)
    rnd = random.Random(7 + seed)
    names = [n for n in dir(debug.options) if n.startswith("DUMP_") and n != "DUMP_ALL"] + ["COLLECT_PERF_STATS", "KEEP_DEPENDENCIES"]
    defaults = {n: getattr(debug.options, n) for n in names + ["ENABLE_COMPLEX_ASSERTIONS"]}

    def suite():
        log = {"flushes": [], "ctx": []}

        class C(contexts.AsyncContext):
            def __init__(self, n):
                self.n = n

            def resume(self):
                log["ctx"].append(("r", self.n))

            def pause(self):
                log["ctx"].append(("p", self.n))
        _reset()
        s = scheduler.get_scheduler()
        s.on_before_batch_flush.subscribe(lambda b: log["flushes"].append(sorted(repr(i._result) for i in b.items)))

        @A()
        def get(kind, v):
            with C((kind, v)):
                r = yield batching.DebugBatchItem(kind, v)
            return r

        @A()
        def failing(v):
            yield get.asynq("a", v)
            raise KeyError(v)

        @A()
        def sync_inside(v):
            return get("b", v)

        @A()
        def lazy():
            try:
                yield futures.Future(lambda: 1 // 0)
            except ZeroDivisionError:
                return "lazy-caught"

        @A()
        def out_of_sched():
            it = batching.DebugBatchItem("z", 1)
            other = get.asynq("z", 2)

            @A()
            def forces():
                yield get.asynq("a", 77)
                return it.value()
            r = yield [other, forces.asynq(), get.asynq("a", 78), get.asynq("a", 79)]
            more = yield get.asynq("z", 3)
            return r, more

        class BadRepr(object):
            """an argument whose repr() fails: nothing calls it unless a diagnostic names the task"""
            def __repr__(self):
                raise ValueError("repr of an argument fails")

        class FailsSecondResume(contexts.AsyncContext):
            def __init__(self):
                self.n = 0

            def resume(self):
                self.n += 1
                if self.n >= 2:
                    raise LookupError("resume fails")

            def pause(self):
                pass

        @A()
        def plain_get(kind, v):
            # no context here: an abandoned task's with-block would be left whenever its generator happens to be collected
            r = yield batching.DebugBatchItem(kind, v)
            return r

        @A()
        def two_steps(v):
            a = yield plain_get.asynq("b", v)
            b = yield plain_get.asynq("a", v + 1)
            return a + b

        @A()
        def killed_while_blocked():
            # blocked on several children when the flush re-walks the tree and its context fails to resume: its children are abandoned
            with FailsSecondResume():
                r = yield [plain_get.asynq("a", 60), two_steps.asynq(61), two_steps.asynq(63)]
            return r

        @A()
        def takes_bad_repr(x, k=None):
            r = yield get.asynq("a", 40)
            return r

        @A()
        def root():
            out = []
            r = yield [get.asynq("a", 1), get.asynq("a", 2), get.asynq("a", 0), get.asynq("b", 3), sync_inside.asynq(4)]
            out.append(r)
            out.append((yield takes_bad_repr.asynq(BadRepr(), k=BadRepr())))
            try:
                out.append((yield [killed_while_blocked.asynq(), get.asynq("b", 66)]))
            except LookupError:
                out.append("killed")
            out.append((yield get.asynq("a", 67)))
            try:
                yield [failing.asynq(5), get.asynq("b", 6), get.asynq("b", 8)]
            except KeyError as e:
                out.append(("err", e.args[0]))
            out.append((yield lazy.asynq()))
            out.append((yield out_of_sched.asynq()))
            return out
        try:
            res = ("val", root())
        except BaseException as e:
            res = ("exc", type(e).__name__, str(e)[:80])
        return res, log["flushes"], log["ctx"]
    buf = io.StringIO()
    base = suite()
    for _ in range(3):
        again = suite()
        if again[0] != base[0] or sorted(again[1]) != sorted(base[1]):
            return None      # the suite itself is order-dependent on this build: oracle not applicable
    if base[0][0] != "val":
        return fail("suite fails with default options", result=repr(base[0]))
    subsets = [[n] for n in names] + [rnd.sample(names, rnd.randrange(2, len(names))) for _ in range(8)] + [names]
    clocks = [1, 1000, 2 ** 31 + 5, 3600 * 10 ** 6 * 5]
    old_utime = S.utime
    try:
        for sub in subsets:
            for step in (clocks if "COLLECT_PERF_STATS" in sub else clocks[:1]):
                t = [10 ** 6]

                def fake():
                    t[0] += step
                    return t[0]
                S.utime = fake
                for n in names:
                    setattr(debug.options, n, n in sub)
                try:
                    with contextlib.redirect_stdout(buf), contextlib.redirect_stderr(buf):
                        got = suite()
                finally:
                    for n, v in defaults.items():
                        setattr(debug.options, n, v)
                    S.utime = old_utime
                buf.seek(0); buf.truncate()
                if got[0] != base[0]:
                    return fail("values/exceptions change under debug options", options=sub, clock_step_us=step,
                                with_options=repr(got[0])[:300], default=repr(base[0])[:300])
                # the order among batches of equal priority is arbitrary (set iteration): compare the compositions
                if sorted(got[1]) != sorted(base[1]) or len(got[1]) != len(base[1]):
                    return fail("flush compositions change under debug options", options=sub, with_options=repr(got[1])[:300],
                                default=repr(base[1])[:300])
                def per_ctx(evs):
                    d = {}
                    for e, n in evs:
                        d.setdefault(n, []).append(e)
                    return d
                if per_ctx(got[2]) != per_ctx(base[2]):
                    return fail("context events change under debug options", options=sub)
    finally:
        for n, v in defaults.items():
            setattr(debug.options, n, v)
        S.utime = old_utime
    return None
