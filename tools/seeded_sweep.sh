#!/bin/sh
# run every seeded change against the check of its own property (applies to /repo, reverts after each)
cd /verif
for id in "$@"; do
  echo "=== seeded $id"
  git -C /repo apply /verif/seeded/$id/patch.diff || { echo "apply failed"; continue; }
  ./check $id > /tmp/sweep_$id.log 2>/dev/null; rc=$?
  git -C /repo checkout -- .
  grep -E "^C[0-9]+ \[|VIOLATION|UNDECIDED|KNOWN|CHECKER" /tmp/sweep_$id.log | cut -c1-200 | head -6
  echo "   rc=$rc"
done
