# dev helper (see header of tools/mutcheck.py): times / dumps obligations of one function; run with PYTHONPATH=/verif python3-vt
import sys, z3
sys.path.insert(0, "/verif")
from pyvc import verify
from pyvc.symexec import FuncExec
qual, name = sys.argv[1], sys.argv[2]
repo, reg, eng = verify.setup("/repo")
c = reg.contracts[qual]
module, fn = repo.function(qual)
cls = module.owner.get(qual.split(".", 1)[1])
eng.ct.used = set()
fx = FuncExec(eng, qual, c, module, fn, cls)
obs = fx.run()
for ob in obs:
    if ob.name.endswith(name) and ob.trace and "if false" in ob.trace[-1]:
        print(ob.name, ob.trace)
        for k, f in enumerate(ob.pc[-8:]):
            print("  pc", str(z3.simplify(f))[:600].replace("\n", " "))
        print("GOAL", str(z3.simplify(ob.goal))[:600])
        pass
        s = z3.Solver(); s.set("timeout", 10000)
        for a in eng.axioms(): s.add(a)
        for f in ob.pc: s.add(f)
        s.add(z3.Not(ob.goal))
        print("direct:", s.check())
        s2 = z3.Solver(); s2.set("timeout", 10000)
        for f in ob.pc[-2:]: s2.add(f)
        print("last two pcs only:", s2.check())
        from pyvc.engine import serialize, solve_text
        text, nparts = serialize(eng, ob)
        print(solve_text(text, nparts, 10)["status"])
        open("/tmp/ob.smt2", "w").write(text)
